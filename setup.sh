#!/bin/sh
# Offline setup: install the few pure-tooling packages the checks need next to /verif.
# hypothesis is already in /venv on this image; it is (re)installed into .deps only if missing.
set -e
cd "$(dirname "$0")"
PIP="/venv/bin/pip install --quiet --no-index --find-links /opt/veriftools/wheels --target .deps --upgrade"
mkdir -p .deps evidence replays/tmp
/venv/bin/python -c "import sys; sys.path.insert(0,'.deps'); import jsonschema" 2>/dev/null || $PIP jsonschema

/venv/bin/python -c "import hypothesis" 2>/dev/null || $PIP hypothesis
/venv/bin/python -c "import sys; sys.path.insert(0,'.deps'); import hypothesis, jsonschema; print('setup ok: hypothesis', hypothesis.__version__)"

"""pbv.catalogue -- the public operations of pulsarbat as data: for each operation when it applies, how to draw its
arguments (plain JSON-able values) and how to execute it.  Shared by C09 (Dask equivalence), C14 (no mutation) and C16."""

import numpy as np
import astropy.units as u
from hypothesis import strategies as st

from . import gen as G

OPS = {}


class Op:
    def __init__(self, name, applies, args, run, fft_time=False, exact=True, arg_objects=None, needs_len=1):
        self.name, self.applies, self.args, self.run = name, applies, args, run
        self.fft_time = fft_time  # FFT along time: the time axis must be a single chunk for Dask input
        self.exact = exact  # Dask result expected bit-identical to NumPy result
        self.needs_len = needs_len
        OPS[name] = self


def info(z):
    import pulsarbat as pb

    return {"cls": type(z).__name__, "n": len(z), "sshape": list(z.shape[1:]), "dtype": str(z.dtype), "start": z.start_time is not None,
            "radio": isinstance(z, pb.RadioSignal), "baseband": isinstance(z, pb.BasebandSignal), "complex": np.iscomplexobj(z.data) if hasattr(z.data, "dtype") else False}


def _always(i):
    return True


def _radio(i):
    return i["radio"]


def _bb(i):
    return i["baseband"]


def _float(i):
    return i["dtype"] in ("float32", "float64", "complex64", "complex128")


# -- slicing ------------------------------------------------------------------------------------------------


def a_tslice(draw, i):
    return draw(G.slices(i["n"]))


Op("slice_t", _always, a_tslice, lambda pb, z, a: z[slice(*a)], needs_len=0)


def a_tfslice(draw, i):
    nchan = i["sshape"][0]
    lo = draw(st.integers(0, nchan - 1))
    hi = draw(st.integers(lo + 1, nchan))
    return {"t": draw(G.slices(i["n"], allow_step=not i["baseband"])), "f": [lo, hi]}


Op("slice_tf", _radio, a_tfslice, lambda pb, z, a: z[slice(*a["t"]), slice(*a["f"])], needs_len=0)
Op("stokes_component", lambda i: i["cls"] == "FullStokesSignal", lambda d, i: d(st.sampled_from(["I", "Q", "U", "V"])), lambda pb, z, a: z[a], needs_len=0)


def a_trailing(draw, i):
    base = 2 if i["cls"] in ("FullStokesSignal", "DualPolarizationSignal") else (1 if i["radio"] else 0)
    tr = i["sshape"][base:]
    return [draw(st.integers(0, d - 1)) for d in tr[:1]]


def r_trailing(pb, z, a):
    base = 3 if type(z).__name__ in ("FullStokesSignal", "DualPolarizationSignal") else (2 if isinstance(z, pb.RadioSignal) else 1)
    return z[(slice(None),) * base + tuple(a)]


Op("trailing_index", lambda i: len(i["sshape"]) > (2 if i["cls"] in ("FullStokesSignal", "DualPolarizationSignal") else (1 if i["radio"] else 0)),
   a_trailing, r_trailing, needs_len=0)

# -- transforms ----------------------------------------------------------------------------------------------


def a_tshift(draw, i):
    n, ss = max(i["n"], 1), i["sshape"]
    val = st.one_of(st.integers(-n - 1, n + 1).map(float), st.integers(-3, 3).map(float),
                    st.tuples(st.integers(-3, 3), st.integers(1, 1023)).map(lambda t: t[0] + t[1] / 1024),
                    st.sampled_from([0.0, 1e-9, -1e-9, 5e-9, -3e-10]),
                    # one ulp off a whole sample (3 * (1 / 5) * 5 = 3.0000000000000004)
                    st.tuples(st.integers(-3, 3), st.sampled_from([-1.0, 1.0])).map(lambda t: float(np.nextafter(float(t[0]), t[1] * np.inf))))
    form = draw(st.sampled_from(["float", "float", "arr", "arr", "time", "int"]))
    if form == "arr" and ss:
        k = draw(st.integers(1, len(ss)))
        shp = [d if draw(st.booleans()) else 1 for d in ss[:k]]
        m = int(np.prod(shp))
        vals = np.array(draw(st.lists(val, min_size=m, max_size=m))).reshape(shp).tolist()
    elif form == "arr":
        form, vals = "arr", draw(val)  # (a 0-d array)
    else:
        vals = draw(val)
        if form == "int":
            vals = float(int(vals))
    return {"form": form, "vals": vals, "crop": draw(st.booleans())}


def mk_tshift_arg(z, a):
    v = np.array(a["vals"], dtype=np.float64)
    if a["form"] == "int":
        return int(a["vals"])
    if a["form"] == "float":
        return float(a["vals"])
    if a["form"] == "time":
        return (v / z.sample_rate).to(u.s)
    return v


def r_tshift(pb, z, a, arg=None):
    return pb.time_shift(z, mk_tshift_arg(z, a) if arg is None else arg, crop=a["crop"])


Op("time_shift", _float, a_tshift, r_tshift, fft_time=True, exact=False)


def a_fshift(draw, i):
    ss = i["sshape"]
    n = max(i["n"], 1)
    val = st.one_of(st.integers(-n - 1, n + 1).map(float), st.tuples(st.integers(-3, 3), st.integers(0, 7)).map(lambda t: t[0] + t[1] / 8))
    form = draw(st.sampled_from(["scalar", "scalar", "arr"]))
    if form == "arr":
        k = draw(st.integers(1, len(ss)))
        shp = [d if draw(st.booleans()) else 1 for d in ss[:k]]
        m = int(np.prod(shp))
        bins = np.array(draw(st.lists(val, min_size=m, max_size=m))).reshape(shp).tolist()
    else:
        bins = draw(val)
    return {"bins": bins, "unit": draw(st.sampled_from(["Hz", "Hz", "1/s", "kHz"]))}


def mk_fshift_arg(z, a):
    b = np.array(a["bins"], dtype=np.float64)
    q = (b * z.sample_rate / max(len(z), 1)).to(u.Unit(a["unit"]))
    return q if b.ndim else q.reshape(())


def r_fshift(pb, z, a, arg=None):
    return pb.freq_shift(z, mk_fshift_arg(z, a) if arg is None else arg)


Op("freq_shift", _bb, a_fshift, r_fshift, fft_time=True, exact=False)


def a_snip(draw, i):
    n = i["n"]
    m = draw(st.integers(0, n))
    t = draw(st.integers(0, n - m))
    fr = 0
    if m < n - t and i["dtype"].startswith(("float", "complex")) and draw(st.booleans()):
        fr = draw(st.sampled_from([512, 256, 1, 1023, 0]))
    tiny = draw(st.sampled_from([0.0, 0.0, 0.0, 1e-9])) if (m < n - t and _float(i)) else 0.0
    return {"t": t, "fr": fr, "n": m, "tiny": tiny, "form": draw(st.sampled_from(["num", "num", "dur"] + (["time"] if i["start"] else [])))}


def r_snip(pb, z, a):
    t = a["t"] + a["fr"] / 1024 + a["tiny"]
    if a["form"] == "num":
        arg = int(t) if (a["fr"] == 0 and a["tiny"] == 0) else float(t)
    elif a["form"] == "dur":
        arg = (t / z.sample_rate).to(u.s)
    else:
        arg = z.start_time + t / z.sample_rate
    return pb.snippet(z, arg, a["n"])


Op("snippet", _always, a_snip, r_snip, fft_time=True, exact=False)
Op("fast_len", _always, lambda d, i: None, lambda pb, z, a: pb.fast_len(z), needs_len=0)


def a_concat_t(draw, i):
    n = i["n"]
    k = draw(st.integers(1, 3))
    return {"cuts": sorted(draw(st.lists(st.integers(0, n), min_size=k, max_size=k))), "drop": draw(st.integers(0, 3)),
            "numpy_first": draw(st.integers(0, 3)) == 0}


def r_concat_t(pb, z, a):
    b = [0] + a["cuts"] + [len(z)]
    pieces = [z[x:y] for x, y in zip(b, b[1:])]
    if a["drop"] == 1 and len(pieces) > 1:
        pieces[1] = type(z).like(pieces[1], start_time=None)
    if a.get("numpy_first") and 0 < len(pieces[0]) < len(z):
        # the first piece is held in memory (a block of zeros of the same shape), the others are whatever z is: for a Dask-backed z a list of
        # mixed containers, whose join is still lazy
        pieces[0] = type(z).like(pieces[0], np.zeros(pieces[0].shape, dtype=pieces[0].dtype))
    return pb.concatenate(pieces, axis=0)


Op("concatenate_time", _always, a_concat_t, r_concat_t, needs_len=0)


def a_concat_f(draw, i):
    nchan = i["sshape"][0]
    return {"cut": draw(st.integers(1, nchan - 1)), "axis": draw(st.sampled_from([1, "freq"]))}


Op("concatenate_freq", lambda i: i["radio"] and i["sshape"][0] >= 2, a_concat_f,
   lambda pb, z, a: pb.concatenate([z[:, : a["cut"]], z[:, a["cut"] :]], axis=a["axis"]), needs_len=0)

# -- dedispersion -----------------------------------------------------------------------------------------------


def a_dm(draw, i):
    return {"frac": draw(st.sampled_from([0.0, 0.05, 0.2, 0.5, 1.3])), "sign": draw(st.sampled_from([-1, 1])),
            "ref": draw(st.sampled_from(["none", "lo", "hi", "above"])), "chirp": draw(st.sampled_from([False, False, True, "gains"]))}


def dm_for(pb, z, a):
    """DM such that the larger band-edge delay is a['frac'] * len(z) samples"""
    lo, hi = z.min_freq.to_value(u.MHz), z.max_freq.to_value(u.MHz)
    ref = {"none": z.center_freq.to_value(u.MHz), "lo": lo, "hi": hi, "above": hi * 1.5}[a["ref"]]
    rate = z.sample_rate.to_value(u.Hz)
    d1 = max(abs(1 / lo**2 - 1 / ref**2), abs(1 / hi**2 - 1 / ref**2)) * (1e6 / 241) * rate
    dm = a["sign"] * (a["frac"] * max(len(z), 1) / d1 if d1 > 0 else 1.0)
    kw = {} if a["ref"] == "none" else {"ref_freq": ref * u.MHz}
    return pb.DM(dm), kw


def positive_band(z):
    return (z.min_freq - z.chan_bw).to_value(u.Hz) > 0


def r_cdd(pb, z, a, DM=None, chirp=None):
    D, kw = dm_for(pb, z, a)
    D = D if DM is None else DM
    if a["chirp"]:
        ch = D.chirp_from_signal(z, **kw) if chirp is None else chirp
        if a["chirp"] == "gains":
            # the caller's chirp carries per-channel gains estimated from the signal itself (all exactly 1 here): for a Dask-backed signal that
            # chirp is a lazy array whose graph contains the signal's
            v = z.data[(slice(0, 1), slice(None)) + (0,) * (z.ndim - 2)]
            ch = ch * np.where(abs(v) >= 0, 1.0, 1.0)
        return pb.coherent_dedispersion(z, D, chirp=ch, **kw)
    return pb.coherent_dedispersion(z, D, **kw)


Op("coherent_dedispersion", _bb, a_dm, r_cdd, fft_time=True, exact=False)


def r_idd(pb, z, a, DM=None):
    D, kw = dm_for(pb, z, a)
    return pb.incoherent_dedispersion(z, D if DM is None else DM, **kw)


Op("incoherent_dedispersion", _radio, a_dm, r_idd)

# -- conversions ----------------------------------------------------------------------------------------------------

_dp = lambda i: i["cls"] == "DualPolarizationSignal"  # noqa
Op("to_linear", _dp, lambda d, i: None, lambda pb, z, a: z.to_linear(), needs_len=0)
Op("to_circular", _dp, lambda d, i: None, lambda pb, z, a: z.to_circular(), needs_len=0)
Op("to_stokes", _dp, lambda d, i: None, lambda pb, z, a: z.to_stokes(), needs_len=0)
Op("to_intensity", _bb, lambda d, i: None, lambda pb, z, a: z.to_intensity(), needs_len=0)


def a_stft(draw, i):
    return draw(st.integers(1, max(1, i["n"])))


Op("stft", _bb, a_stft, lambda pb, z, a: pb.contrib.stft(z, nperseg=a), fft_time=True, exact=False)


def a_istft(draw, i):
    nchan = i["sshape"][0]
    divs = [d for d in range(1, nchan + 1) if nchan % d == 0]
    return draw(st.sampled_from(divs))


Op("istft", _bb, a_istft, lambda pb, z, a: pb.contrib.istft(z, nperseg=a), fft_time=False, exact=False, needs_len=0)

# -- elementwise ---------------------------------------------------------------------------------------------------

UEXPR = {
    "z*2+1": lambda z: z * 2 + 1, "abs": lambda z: np.abs(z), "z+z": lambda z: z + z, "conj": lambda z: np.conj(z), "neg": lambda z: -z,
    "square": lambda z: np.square(z), "z-0.5": lambda z: z - 0.5, "1/(abs+1)": lambda z: 1 / (np.abs(z) + 1),
}
def _mask(z):
    return (np.arange(int(np.prod(z.shape))) % 3 != 0).reshape(z.shape)


def _where(f, *extra):
    """ufunc called with where=<mask> and no out=: NumPy leaves the masked-out samples uninitialised, so they are overwritten with 0 here
    (the result is then a deterministic function of the input)"""
    def run(z):
        m = _mask(z)
        r = f(z, *extra, where=m)
        return type(r).like(r, np.where(m, r.data, 0))
    return run


# (negation and adding 1.0 are exactly rounded whatever inner loop NumPy picks; a complex product is not bit-reproducible between loops)
UEXPR.update({"neg_where": _where(np.negative), "add_where": _where(np.add, 1.0), "sub_self_where": lambda z: _where(np.subtract, z)(z)})
Op("ufunc_expr", _float, lambda d, i: d(st.sampled_from(sorted(UEXPR))), lambda pb, z, a: UEXPR[a](z), needs_len=0)


def _double(x, k=2):
    return x * k


def r_sigtrans(pb, z, a):
    f = pb.signal_transform(_double)
    return f(z, k=a)


def _affine(x, k=1.0, b=0.0):
    return x * k + b


_WRAPPED = {}


def r_sigtrans_hist(pb, z, a):
    """the SAME decorated transform object called several times with different keyword subsets; returns the last result"""
    if "t" not in _WRAPPED:
        _WRAPPED["t"] = pb.signal_transform(_affine)
    r = None
    for kw in a:
        r = _WRAPPED["t"](z, **{k: v for k, v in kw.items()})
    return r


Op("signal_transform_history", _float,
   lambda d, i: [d(st.sampled_from([{"k": 3.0, "b": 1.0}, {"k": 2.0}, {"b": 0.5}, {}, {"k": 0.5, "b": -1.0}])) for _ in range(d(st.integers(2, 3)))],
   r_sigtrans_hist, needs_len=0)
def _cast(x, dtype=None, name="unit", meta=1.0):
    """an array function whose OWN keywords happen to be called like keywords of dask.array.map_blocks"""
    y = x if dtype is None else x.astype(dtype)
    return y * (2 if name == "double" else 1) * meta


def r_sigtrans_named(pb, z, a):
    f = pb.signal_transform(_cast)
    kw = {}
    if a["dtype"]:
        kw["dtype"] = np.complex64 if np.iscomplexobj(z.data) else np.float32
    if a["name"]:
        kw["name"] = "double"
    if a["meta"]:
        kw["meta"] = 0.5
    return f(z, **kw)


Op("signal_transform_named_kwargs", _float, lambda d, i: {"dtype": d(st.booleans()), "name": d(st.booleans()), "meta": d(st.booleans())}, r_sigtrans_named,
   needs_len=0)
Op("signal_transform", _float, lambda d, i: d(st.sampled_from([2, 3, 0.5])), r_sigtrans, needs_len=0)
Op("like", _always, lambda d, i: None, lambda pb, z, a: type(z).like(z), needs_len=0)
Op("compute", _always, lambda d, i: None, lambda pb, z, a: z.compute(), needs_len=0)
Op("persist", _always, lambda d, i: None, lambda pb, z, a: z.persist(), needs_len=0)
Op("to_dask_array", _always, lambda d, i: None, lambda pb, z, a: z.to_dask_array(), needs_len=0)
Op("rechunk", _always, lambda d, i: d(st.sampled_from([None, "ones"])), lambda pb, z, a: z.rechunk() if a is None else z.rechunk((-1,) + (1,) * (z.ndim - 1)),
   needs_len=0)


def applicable(i):
    out = []
    for name, op in OPS.items():
        if i["n"] < op.needs_len:
            continue
        if name in ("coherent_dedispersion", "incoherent_dedispersion") and not i.get("positive_band", False):
            continue
        if op.applies(i):
            out.append(name)
    return out

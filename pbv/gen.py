"""pbv.gen -- Hypothesis strategies producing plain-data *specs*, and builders turning specs into
pulsarbat objects.  Every case is a pure function of drawn values (no RNG outside Hypothesis:
"noise" data is produced from a *drawn* integer seed)."""

from fractions import Fraction as F

import numpy as np
import astropy.units as u
from astropy.time import Time
from hypothesis import strategies as st

from . import oracle as O

CLASSES = ["Signal", "RadioSignal", "IntensitySignal", "FullStokesSignal", "BasebandSignal",
           "DualPolarizationSignal"]
RADIO = CLASSES[1:]
BASEBAND = ["BasebandSignal", "DualPolarizationSignal"]
DT = {"f4": np.float32, "f8": np.float64, "c8": np.complex64, "c16": np.complex128, "i8": np.int64,
      "i4": np.int32, "u1": np.uint8, "f2": np.float16, "i2": np.int16, "b1": np.bool_, "ld": np.longdouble, "cld": np.clongdouble}
CLASS_DTYPES = {
    "Signal": ["f4", "f8", "c8", "c16", "i8"],
    "RadioSignal": ["f4", "f8", "c8", "c16", "i8"],
    "IntensitySignal": ["f4", "f8"],
    "FullStokesSignal": ["f4", "f8"],
    "BasebandSignal": ["c8", "c16"],
    "DualPolarizationSignal": ["c8", "c16"],
}

# ---------------------------------------------------------------------------------------------
# lengths
# ---------------------------------------------------------------------------------------------

_SPECIAL_N = [0, 1, 2, 3, 4, 5, 7, 8, 9, 11, 13, 15, 16, 17, 25, 31, 32, 33, 49, 63, 64, 65, 97, 100, 127, 128,
              129, 210, 211, 255, 256, 257]


def lengths(nmin=0, nmax=300):
    sp = [n for n in _SPECIAL_N if nmin <= n <= nmax]
    parts = [st.integers(nmin, nmax), st.integers(nmin, min(nmax, max(nmin, 20)))]
    if sp:
        parts.append(st.sampled_from(sp))
    return st.one_of(*parts)


# ---------------------------------------------------------------------------------------------
# quantities
# ---------------------------------------------------------------------------------------------

_ROUND_MANT = [1.0, 2.0, 2.5, 4.0, 5.0, 8.0, 1.6, 1.0 / 3.0, 6.25, 1.024, 3.2]


@st.composite
def freq_q(draw, lo_exp=-3, hi_exp=9.6, units=("Hz", "kHz", "MHz", "GHz", "1/s", "mHz")):
    """positive frequency quantity spec, log-uniform over [10^lo_exp, 10^hi_exp] Hz"""
    e = draw(st.integers(int(np.floor(lo_exp)), int(np.floor(hi_exp))))
    if draw(st.booleans()):
        m = draw(st.sampled_from(_ROUND_MANT))
    else:
        m = draw(st.floats(1.0, 9.999, allow_nan=False))
    hzv = F(m) * F(10) ** e
    un = draw(st.sampled_from(list(units)))
    v = float(hzv / O.FREQ_UNITS[un])
    if not (v > 0 and np.isfinite(v)):
        v, un = float(hzv), "Hz"
    return {"v": v, "u": un}


def time0():
    """start time spec: None or (mjd, frac) -- a few instants right at leap seconds included"""
    leap = st.sampled_from([(57753, 0.99999), (57753, 0.9999884259259259), (57754, 0.0), (41498, 0.99998),
                            (56108, 0.999995), (51544, 0.5),
                            # any time of a UTC day that ends with a leap second (such a day is 86401 s long; astropy's day fraction is stretched)
                            (57753, 0.5), (57203, 0.25), (56108, 0.125), (54831, 0.75), (50629, 0.0), (41498, 0.3)])
    # from 1972-07 on: before 1972 UTC had a variable rate against TAI ("rubber seconds"), where astropy's UTC<->TAI
    # round trip is only good to ~1e-9 s -- outside what any property here is about
    gen = st.tuples(st.integers(41500, 70000), st.floats(0.0, 1.0, exclude_max=True, allow_nan=False))
    scale = st.sampled_from(["utc"] * 5 + ["tai", "tt"])
    # presentation attributes of the Time object (they do not change the instant): output format and printing precision
    fmt = st.sampled_from([None, None, None, None, "jd", "isot", "unix", "iso", "gps", "byear", "datetime64"])
    prec = st.sampled_from([None, None, 0, 3, 9])
    loc = st.sampled_from([None, None, None, None, None, "site"])  # an observatory location attached to the Time (it does not change the instant)

    def mk(t):
        d = {"mjd": t[0][0], "frac": t[0][1], "scale": t[1]}
        if t[2]:
            d["fmt"] = t[2]
        if t[3] is not None:
            d["precision"] = t[3]
        if t[4]:
            d["loc"] = t[4]
        return d

    return st.tuples(st.one_of(leap, gen, gen), scale, fmt, prec, loc).map(mk)


def mk_time(spec):
    if spec is None:
        return None
    kw = {}
    if spec.get("loc"):
        from astropy.coordinates import EarthLocation

        kw["location"] = EarthLocation.from_geodetic(-79.84 * u.deg, 38.43 * u.deg, 807 * u.m)
    t = Time(spec["mjd"], spec["frac"], format="mjd", scale=spec.get("scale", "utc"), **kw)
    if spec.get("fmt"):
        t.format = spec["fmt"]
    if spec.get("precision") is not None:
        t.precision = spec["precision"]
    return t


def metas():
    return st.sampled_from([None, {}, {"a": 1}, {"obs": "x", "n": {"k": [1, 2]}}])


# ---------------------------------------------------------------------------------------------
# signal specs
# ---------------------------------------------------------------------------------------------


@st.composite
def signal_spec(draw, classes=CLASSES, nmin=0, nmax=300, dtypes=None, max_trailing=2, nchan_max=17,
                start="any", data_kinds=("index",), sr=None, positive_band=False, ratio_lo=1e-9,
                with_meta=True, trailing_dim_max=3):
    cls = draw(st.sampled_from(list(classes)))
    n = draw(lengths(nmin, nmax))
    allowed = CLASS_DTYPES[cls]
    if dtypes is not None:
        allowed = [d for d in allowed if d in dtypes] or allowed
    dtype = draw(st.sampled_from(allowed))
    ntr = draw(st.integers(0, max_trailing))
    trailing = [draw(st.integers(1, trailing_dim_max)) for _ in range(ntr)]
    spec = {"cls": cls, "n": n, "dtype": dtype}
    if cls == "Signal":
        sshape = trailing
    else:
        nchan = draw(st.one_of(st.integers(1, nchan_max), st.integers(1, min(4, nchan_max))))
        sshape = [nchan]
        if cls == "FullStokesSignal":
            sshape.append(4)
        elif cls == "DualPolarizationSignal":
            sshape.append(2)
            spec["pol"] = draw(st.sampled_from(["linear", "circular"]))
        sshape += trailing
    spec["sshape"] = sshape
    spec["sr"] = draw(sr if sr is not None else freq_q())
    if start == "any":
        spec["t0"] = draw(st.one_of(st.none(), time0(), time0()))
    elif start == "some":
        spec["t0"] = draw(time0())
    else:
        spec["t0"] = None
    if cls != "Signal":
        spec["align"] = draw(st.sampled_from(["bottom", "center", "top"]))
        nchan = sshape[0]
        if cls in BASEBAND:
            bw = O.fq(spec["sr"])
        else:
            spec["bw"] = draw(freq_q())
            bw = O.fq(spec["bw"])
        # centre frequency: bw/|cf| >= ratio_lo ; optionally the whole band positive
        # positive band: every frequency a channel's content can hold (label +- chan_bw/2) stays > 0
        lo = bw * (F(nchan, 2) + F(3, 4)) if positive_band else bw / 10**6
        hi = bw / F(ratio_lo)
        hi = min(hi, F(10) ** 12)
        lo = min(lo, hi)
        # log-uniform between lo and hi
        frac = draw(st.floats(0.0, 1.0, allow_nan=False))
        import math

        val = math.exp(math.log(float(lo)) + frac * (math.log(float(hi)) - math.log(float(lo))))
        val = min(max(val, float(lo)), float(hi))
        if draw(st.integers(0, 3)) == 0:
            # "round" centre: a multiple of bw/2 near val
            k = max(1, round(val / float(bw / 2)))
            if positive_band:
                k = max(k, nchan + 2)
            val = float(bw / 2 * k)
        un = draw(st.sampled_from(["Hz", "kHz", "MHz", "GHz"]))
        v = float(F(val) / O.FREQ_UNITS[un])
        if not positive_band and draw(st.integers(0, 19)) == 0:
            v = draw(st.sampled_from([0.0, -v]))
        spec["cf"] = {"v": v, "u": un}
    # input-kind variants that do not change the value: integer / single-precision Quantity dtypes, strings that are not the interned literals
    if draw(st.integers(0, 5)) == 0:
        for key, picks in (("sr", (0,)), ("cf", (0, 1)), ("bw", (0,))):
            if key in spec and draw(st.booleans()):
                k = O.qkind(spec[key]["v"], draw(st.sampled_from(picks)))
                if k:
                    spec[key] = dict(spec[key], k=k)
        spec["str_kind"] = draw(st.sampled_from(["built", "npstr"]))
    if draw(st.integers(0, 11)) == 0:
        # an instance of a user-defined subclass of the library class (results derived from it are of that subclass): a plain one with a method
        # of its own, or one whose constructor spells the options as ordinary (positional-or-keyword) parameters with defaults of its own
        spec["sub"] = draw(st.sampled_from([True, "ctor"]))
    if with_meta:
        spec["meta"] = draw(metas())
    kind = draw(st.sampled_from(list(data_kinds)))
    d = {"kind": kind}
    if kind == "noise":
        d["seed"] = draw(st.integers(0, 2**31 - 1))
    elif kind == "impulse":
        d["pos"] = draw(st.integers(0, max(0, n - 1)))
    elif kind == "tone":
        d["k"] = draw(st.integers(-(n // 2), max(0, (n - 1) // 2))) if n else 0
    spec["data"] = d
    return spec


def mk_data(spec, n=None, sshape=None, dtype=None):
    n = spec["n"] if n is None else n
    sshape = tuple(spec["sshape"] if sshape is None else sshape)
    dt = DT[dtype or spec["dtype"]]
    shape = (n,) + sshape
    size = int(np.prod(shape))
    d = spec.get("data", {"kind": "index"})
    kind = d["kind"]
    cplx = np.issubdtype(dt, np.complexfloating)
    if kind == "index":
        base = np.arange(size, dtype=np.float64).reshape(shape)
        x = base + 1j * (-(base + 0.5)) if cplx else base
    elif kind == "noise":
        rng = np.random.default_rng(d["seed"])
        x = rng.standard_normal(shape)
        if cplx:
            x = x + 1j * rng.standard_normal(shape)
        elif np.issubdtype(dt, np.integer):
            x = np.rint(x * 100)
    elif kind == "impulse":
        x = np.zeros(shape, dtype=np.complex128 if cplx else np.float64)
        if n:
            amp = 1.0 + np.arange(int(np.prod(sshape))).reshape(sshape) if sshape else 1.0
            x[d["pos"] % n] = amp * ((1 - 0.5j) if cplx else 1.0)
    elif kind == "tone":
        t = np.arange(n).reshape((n,) + (1,) * len(sshape))
        amp = 1.0 + np.arange(int(np.prod(sshape))).reshape(sshape) if sshape else 1.0
        ang = 2 * np.pi * ((d["k"] * t) % max(n, 1)) / max(n, 1)
        x = amp * (np.cos(ang) + 1j * np.sin(ang)) if cplx else amp * np.cos(ang)
        x = np.broadcast_to(x, shape).copy()
    else:
        raise ValueError(kind)
    x = np.ascontiguousarray(x.astype(dt))
    nf = spec.get("nonfinite")
    if nf and x.size and x.dtype.kind in "fc":
        # a few NaN / Inf samples ("every input signal" includes bad samples)
        flat = x.reshape(-1)
        for j, v in zip(nf["at"], [np.nan, np.inf, -np.inf]):
            flat[j % flat.size] = v
    return x


def mk_str(text, kind):
    """the same text as a str object that is not the interned literal ("built") or as a numpy.str_"""
    if kind == "built":
        return "".join(list(text))
    if kind == "npstr":
        return np.str_(text)
    return text


def sig_kwargs(spec):
    kw = {"sample_rate": O.q(spec["sr"]), "start_time": mk_time(spec.get("t0"))}
    if "meta" in spec:
        kw["meta"] = spec["meta"]
    cls = spec["cls"]
    if cls != "Signal":
        kw["center_freq"] = O.q(spec["cf"])
        kw["freq_align"] = mk_str(spec["align"], spec.get("str_kind"))
        if cls not in BASEBAND:
            kw["chan_bw"] = O.q(spec["bw"])
    if cls == "DualPolarizationSignal":
        kw["pol_type"] = mk_str(spec["pol"], spec.get("str_kind"))
    return kw


_PINNED = []


def pin(z):
    """The next build(spec) (without data/chunks) returns THIS object instead of constructing one: lets a sub-check's ordinary runner be
    driven over a history on one and the same signal object (per-object caches, memoised properties)."""
    _PINNED[:] = [z]


def unpin():
    _PINNED[:] = []


def reassign(z, old, new):
    """Bring the NumPy-backed object z (built from spec `old`) to spec `new` through its public setters and in-place ufuncs on the signal
    (never a new object). Returns False if the change cannot be expressed that way (class, shape or dtype differ)."""
    if any(old[k] != new[k] for k in ("cls", "n", "sshape", "dtype")) or not isinstance(z.data, np.ndarray):
        return False
    if old.get("data") != new.get("data"):
        x = mk_data(new)
        np.multiply(z, 0, out=z)
        np.add(z, x, out=z)
        if not np.array_equal(np.asarray(z.data), x):  # (signed zeros, non-finite old data)
            z.data[...] = x
    ko, kn = sig_kwargs(old), sig_kwargs(new)
    if old["sr"] != new["sr"]:
        z.sample_rate = kn["sample_rate"]
        if old["cls"] in BASEBAND:
            z.chan_bw = kn["sample_rate"]
    if old.get("t0") != new.get("t0"):
        z.start_time = kn["start_time"]
    if old["cls"] != "Signal":
        if old["cf"] != new["cf"]:
            z.center_freq = kn["center_freq"]
        if old["align"] != new["align"]:
            z.freq_align = kn["freq_align"]
        if old["cls"] not in BASEBAND and old["bw"] != new["bw"]:
            z.chan_bw = kn["chan_bw"]
    if old["cls"] == "DualPolarizationSignal" and old.get("pol") != new.get("pol"):
        z.pol_type = kn["pol_type"]
    if old.get("meta") != new.get("meta") and "meta" in new:
        z.meta = new["meta"]
    return True


def bad_assign(z, pick, prefer=None):
    """One invalid attribute assignment on z through a public setter; it must be refused (ValueError) -- and, as the caller goes on to use
    the object, must have left it exactly as it was.  Returns the attribute name."""
    from .core import Violation

    table = [("sample_rate", -1 * u.Hz), ("sample_rate", 5.0), ("sample_rate", 3 * u.s), ("start_time", "not a time"),
             ("start_time", Time([58000.0, 58001.0], format="mjd")), ("start_time", 5 * u.s), ("start_time", 59867.25),
             ("center_freq", 5.0), ("center_freq", np.array([1.0, 2.0]) * u.Hz), ("center_freq", 1 * u.s),
             ("chan_bw", -2 * u.MHz), ("chan_bw", 0 * u.Hz), ("chan_bw", 3 * u.s), ("chan_bw", np.array([1.0, 2.0]) * u.Hz), ("chan_bw", np.array([2.5]) * u.kHz), ("sample_rate", np.array([[1.0]]) * u.MHz),
             ("freq_align", "middle"), ("freq_align", None), ("pol_type", "Circular"), ("pol_type", None), ("pol_type", "elliptical"),
             ("meta", 5), ("meta", "abc")]
    ok = [(a, v) for a, v in table if isinstance(getattr(type(z), a, None), property)]
    if prefer and pick % 2 and any(a == prefer for a, _ in ok):
        ok = [(a, v) for a, v in ok if a == prefer]  # every other time: the attribute the calling check is about
    attr, val = ok[pick % len(ok)]
    try:
        setattr(z, attr, val)
    except ValueError:
        return attr
    raise Violation("assigning %s = %r to a %s was not refused" % (attr, val, type(z).__name__))


class OneObject:
    """History driver: runs a sub-check's ordinary runner step after step either on freshly built signals (enabled=False) or on ONE signal
    object that is brought from each step's spec to the next through its public setters / in-place ufuncs."""

    def __init__(self, enabled, spec):
        import copy

        self.z = build(spec) if enabled else None
        self.spec = copy.deepcopy(spec)
        self.reused = 0
        self.refusals = enabled == "refusals"  # also: a refused assignment before every step (must leave the object untouched)
        self.count = 0

    def run(self, fn, cur, stt, key="sig"):
        import copy

        if self.z is not None:
            if reassign(self.z, self.spec, cur[key]):
                self.reused += 1
            else:
                self.z = build(cur[key])
            self.spec = copy.deepcopy(cur[key])
            if self.refusals:
                self.count += 1
                bad_assign(self.z, self.count * 7 + len(str(cur[key])))
                stt.label("refused_assignment_before_call")
            pin(self.z)
        try:
            return fn(cur, stt)
        finally:
            unpin()


def build(spec, data=None, chunks=None):
    import pulsarbat as pb

    if _PINNED and data is None and chunks is None:
        return _PINNED.pop()
    cls = getattr(pb, spec["cls"])
    if spec.get("sub"):
        cls = user_subclass(cls, spec["sub"])
    x = mk_data(spec) if data is None else data
    if chunks is not None:
        import dask.array as da

        x = da.from_array(x, chunks=chunks)
    return cls(x, **sig_kwargs(spec))


_SUBCLASSES = {}


def _describe(self):
    return "%d samples" % len(self)


def _ctor_with_defaults(cls):
    """`def __init__(self, z, /, sample_rate=<default>, start_time=None, ...)`: every option of the library constructor as an ordinary parameter
    with a default of the user's own, handed on by keyword."""
    import inspect

    defaults = {"sample_rate": "_u.Quantity(7.0, 'Hz')", "start_time": "None", "meta": "None", "center_freq": "_u.Quantity(1.0, 'GHz')",
                "chan_bw": "_u.Quantity(3.0, 'Hz')", "freq_align": "'center'", "pol_type": "'linear'"}
    names = [k for k, v in inspect.signature(cls.__init__).parameters.items() if v.kind is v.KEYWORD_ONLY]
    assert set(names) <= set(defaults), names
    src = "def __init__(self, z, /, %s):\n    _base.__init__(self, z, %s)\n" % (", ".join("%s=%s" % (k, defaults[k]) for k in names),
                                                                              ", ".join("%s=%s" % (k, k) for k in names))
    import astropy.units as _u

    ns = {"_u": _u, "_base": cls}
    exec(src, ns)
    return ns["__init__"]


def user_subclass(cls, kind=True):
    """what a user of the library may well write: `class MySignal(pb.BasebandSignal): ...` with a method of their own (kind True), or with a
    constructor of their own whose options are ordinary parameters with defaults ("ctor").  The classes live in this module's namespace
    (defined at import, below) so that instances can be pickled into worker processes."""
    kind = kind if kind in ("ctor", "axes") and (kind != "axes" or cls.__name__ == "Signal") else True
    if (cls, kind) not in _SUBCLASSES:
        name = {True: "My", "ctor": "MyCtor", "axes": "MyAxes"}[kind] + cls.__name__
        body = {"__module__": __name__, "__qualname__": name, "describe": _describe}
        if kind == "ctor":
            body["__init__"] = _ctor_with_defaults(cls)
        if kind == "axes":
            # folded data: the user names the axes (as tests/test_signal.py::ArbitrarySignal does); axis 0 is still the time axis
            body["_axes_labels"] = {"subint": 0, "bin": 1}
        sub = type(name, (cls,), body)
        globals()[name] = sub
        _SUBCLASSES[(cls, kind)] = sub
    return _SUBCLASSES[(cls, kind)]


K_EXACT = 4148.808  # s MHz^2 cm^3 / pc: the "exact" dispersion constant some users prefer to the library's rounded 1 / 2.41e-4

DM_KINDS = ["lib", "lib", "lib", "lib", "subclass", "instance"]


def dm_kind(pb, D, kind):
    """The dispersion constant K is the public attribute `dispersion_constant`: a user subclass may set its own, or assign one on an instance.
    -> (the DM object of that kind with the same measure, K'/K as an exact Fraction: the delay and the chirp are linear in K*DM)"""
    import astropy.units as u

    if kind in (None, "lib"):
        return D, F(1)
    if kind == "subclass":
        D2 = MyExactDM(D)
    else:
        D2 = pb.DM(D)
        D2.dispersion_constant = K_EXACT * u.s * u.MHz**2 * u.cm**3 / u.pc
    assert D2.unit == D.unit and D2.value == D.value, (D, D2)
    return D2, F(K_EXACT) / O.K_DM


def _define_user_subclasses():
    import pulsarbat as pb

    for name in CLASSES:
        user_subclass(getattr(pb, name))
        user_subclass(getattr(pb, name), "ctor")
    user_subclass(pb.Signal, "axes")

    # an oversampled filterbank: the channels are spaced by 27/32 of the sample rate (BasebandSignal hard-wires chan_bw = sample_rate, so the
    # user overrides the public accessor) ...
    globals()["MyOversampledSignal"] = type("MyOversampledSignal", (pb.BasebandSignal,), {
        "__module__": __name__, "__qualname__": "MyOversampledSignal", "chan_bw": property(lambda self: self.sample_rate * (27 / 32), lambda self, value: pb.BasebandSignal.chan_bw.fset(self, value))})

    # ... and a class that keeps its centre frequency in a field of its own (getter and setter overridden together)
    def _get_cf(self):
        return self._sky_freq

    def _set_cf(self, value):
        pb.RadioSignal.center_freq.fset(self, value)  # the library's validation
        self._sky_freq = self._center_freq
        self._center_freq = None

    globals()["MyOwnCentreSignal"] = type("MyOwnCentreSignal", (pb.RadioSignal,), {
        "__module__": __name__, "__qualname__": "MyOwnCentreSignal", "center_freq": property(_get_cf, _set_cf)})
    import astropy.units as u

    globals()["MyPhase"] = type("MyPhase", (pb.Phase,), {"__module__": __name__, "__qualname__": "MyPhase", "turns": lambda self: self["int"]})
    globals()["MyExactDM"] = type("MyExactDM", (pb.DispersionMeasure,), {"__module__": __name__, "__qualname__": "MyExactDM",
                                                                         "dispersion_constant": K_EXACT * u.s * u.MHz**2 * u.cm**3 / u.pc})


_define_user_subclasses()


# ---------------------------------------------------------------------------------------------
# helpers for reading signals back into exact quantities
# ---------------------------------------------------------------------------------------------


def exact_labels(spec, nchan=None):
    """channel labels of the spec'd band, exact Fractions in Hz (the band model of the property)."""
    nchan = spec["sshape"][0] if nchan is None else nchan
    cf = O.fq(spec["cf"])
    bw = O.fq(spec["sr"]) if spec["cls"] in BASEBAND else O.fq(spec["bw"])
    a = {"bottom": F(0), "center": F(1, 2), "top": F(1)}[spec["align"] if nchan % 2 == 0 else "center"]
    return [cf + bw * (i + a - F(nchan, 2)) for i in range(nchan)]


def slices(n, allow_step=True, extra=3):
    """st for (start, stop, step) with None / negative / out-of-range bounds; step > 0"""
    b = st.one_of(st.none(), st.integers(-n - extra, n + extra))
    step = st.sampled_from([None, 1, 1, 2, 3, 7]) if allow_step else st.none()
    return st.tuples(b, b, step).map(list)

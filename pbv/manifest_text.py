"""Per-property texts for MANIFEST.json (kept next to the checks so they stay in step)."""

NA = {}

CHECKS = {
    "C01": {
        "text": "Generated-input search with an exact-rational time ledger (TAI seconds from astropy's two doubles): single slices of every class/"
                "rate/bounds/step, and a rule-based state machine composing slices, fast_len, cropped time shifts, snippets in every form, "
                "coherent and incoherent dedispersion, with length, start/stop time, rate, dt, membership and moved-sample identity checked after "
                "every step. Exploration: thousands of generated pipelines per run, not a proof.",
        "ref": "DESIGN.md section 4 C01",
        "note": "trusts astropy's UTC->TAI conversion and Python Fractions; tolerance 12 ps per op + 4 eps of the offset (stated in evidence assumptions)",
        "technique": "property-based testing: Hypothesis given + RuleBasedStateMachine vs exact-rational ledger",
    },
    "C02": {
        "text": "Generated radio signals of every class (nchan 1..17, each alignment, centre/bandwidth over decades and units) checked against the "
                "exact-rational band model; nested time+channel slices with negative/open bounds and Stokes/trailing-axis selections must carry "
                "exactly the selected labels of the original. Exploration.",
        "ref": "DESIGN.md section 4 C02",
        "note": "labels compared within (8+2*depth) ulp of the largest label; generator bound chan_bw/|center_freq| >= 1e-9",
        "technique": "property-based testing: Hypothesis vs exact-rational label model",
    },
    "C18": {
        "text": "Generated-input search against an independent table of all 7-smooth numbers below 2^64: exhaustive for 0 <= N < 10^6 (10^7 thorough), "
                "at s-1, s, s+1 and the midpoint for the 7-smooth s < 2^62 (all of them in the thorough tier), Hypothesis integers over [0, 2^62), and "
                "fast_len on generated signals of every class (length, data identity, timestamps). Exploration, not proof: the range above 10^7 is sampled.",
        "ref": "DESIGN.md section 4 C18",
        "note": "trusts the four-nested-loop table generator in pbv/oracle.py and Python integer arithmetic",
        "technique": "property-based testing: exhaustive enumeration + Hypothesis integers vs table oracle; generated signals for fast_len",
    },
}

"""Per-property texts for MANIFEST.json (kept next to the checks so they stay in step)."""

NA = {}

CHECKS = {
    "C18": {
        "text": "Generated-input search against an independent table of all 7-smooth numbers below 2^64: exhaustive for 0 <= N < 10^6 (10^7 thorough), "
                "at s-1, s, s+1 and the midpoint for the 7-smooth s < 2^62 (all of them in the thorough tier), Hypothesis integers over [0, 2^62), and "
                "fast_len on generated signals of every class (length, data identity, timestamps). Exploration, not proof: the range above 10^7 is sampled.",
        "ref": "DESIGN.md section 4 C18",
        "note": "trusts the four-nested-loop table generator in pbv/oracle.py and Python integer arithmetic",
        "technique": "property-based testing: exhaustive enumeration + Hypothesis integers vs table oracle; generated signals for fast_len",
    },
}

"""Per-property texts for MANIFEST.json (kept next to the checks so they stay in step)."""

NA = {}

CHECKS = {
    "C01": {
        "text": "Generated-input search with an exact-rational time ledger (TAI seconds from astropy's two doubles): single slices of every class/"
                "rate/bounds/step, and a rule-based state machine composing slices, fast_len, cropped time shifts, snippets in every form, "
                "coherent and incoherent dedispersion, with length, start/stop time, rate, dt, membership and moved-sample identity checked after "
                "every step. Exploration: thousands of generated pipelines per run, not a proof.",
        "ref": "DESIGN.md section 4 C01",
        "note": "trusts astropy's UTC->TAI conversion and Python Fractions; tolerance 12 ps per op + 4 eps of the offset (stated in evidence assumptions)",
        "technique": "property-based testing: Hypothesis given + RuleBasedStateMachine vs exact-rational ledger",
    },
    "C02": {
        "text": "Generated radio signals of every class (nchan 1..17, each alignment, centre/bandwidth over decades and units) checked against the "
                "exact-rational band model; nested time+channel slices with negative/open bounds and Stokes/trailing-axis selections must carry "
                "exactly the selected labels of the original. Exploration.",
        "ref": "DESIGN.md section 4 C02",
        "note": "labels compared within (8+2*depth) ulp of the largest label; generator bound chan_bw/|center_freq| >= 1e-9",
        "technique": "property-based testing: Hypothesis vs exact-rational label model",
    },
    "C03": {
        "text": "Generated signals (N 1..64 incl. odd/prime, f4/f8/c8/c16, sample shapes of rank 0..4) and shifts in every accepted form (int, float, 0-d, "
                "time Quantity, arrays of full/lower rank/length-1 axes; integer, fractional, |s|>=N, mixed signs) compared element by element with an "
                "explicit extended-precision DFT shift-theorem reference; the zero-fill region must be bit-exactly zero for every broadcast element; "
                "crop=True must equal the cropped crop=False result; large-N cases (to 8192) against numpy.fft; call histories for hidden state. Exploration.",
        "ref": "DESIGN.md section 4 C03",
        "note": "tolerance 2e-6*(1+log2 N)*max|x| follows from the library's documented complex64 phase ramp; shifts |s|<=1e-8 are the documented no-op",
        "technique": "property-based testing: Hypothesis vs longdouble DFT-matrix oracle; metamorphic crop relation; call-history variants",
    },
    "C04": {
        "text": "Generated baseband signals (N 1..64, c8/c16, channel/pol/trailing shapes) and frequency shifts (scalar, (1,), lower-rank, length-1 axes, "
                "full; Hz/kHz/MHz/1/s; whole and fractional bins, either sign, beyond the band) compared bin by bin with DFT(x*exp(2 pi i df t)) from an "
                "extended-precision DFT, wrapped bins required to be empty for every element; call histories varying one ingredient (e.g. only the "
                "sample rate) to expose state carried between calls. Exploration.",
        "ref": "DESIGN.md section 4 C04",
        "note": "the single bin at the edge of the zeroed region is unconstrained when the shift is within 1e-9 of a whole bin (float conversion of the Quantity)",
        "technique": "property-based testing: Hypothesis vs longdouble DFT oracle in the frequency domain; call-history variants",
    },
    "C05": {
        "text": "Generated baseband signals (N 8..512 not only 2^k, nchan 1..4, alignments, c8/c16, trailing dims), DMs of either sign over decades and "
                "reference frequencies inside/at the edge of/outside the band: (1) chirp_function/chirp_from_signal against the analytic phase evaluated in "
                "exact rationals and reduced mod 1; (2) the dedispersed samples, crop and start_time against IDFT(DFT(x) H_exact) with exact-rational "
                "band-edge delays; (3) supplied chirp == internal chirp bit-for-bit; (4) DM then -DM on band-limited pulses vs the same two exact filter "
                "steps. Exploration.",
        "ref": "DESIGN.md section 4 C05",
        "note": "|DM| is scaled so that |phase| + K DM |1/fref-1/f| <= 5e6 cycles (float64 cannot resolve the phase better beyond that); a crop bound within "
                "float-evaluation error of a whole sample accepts either neighbour",
        "technique": "property-based testing: Hypothesis vs exact-rational transfer function and DFT oracle; metamorphic round trip",
    },
    "C06": {
        "text": "time_delay/sample_delay against the exact-rational f^-2 law for generated DMs (either sign, 8 decades, pc/cm3 and equivalent units), "
                "frequency scalars/arrays and references in Hz..GHz (and infinity), with antisymmetry and chain additivity; incoherent_dedispersion on "
                "every radio class traced sample by sample through index-coded data: each output sample must be the input sample of the same channel at "
                "T + round(delay_i)/rate, all sources in range, non-empty whenever a valid output exists. Exploration.",
        "ref": "DESIGN.md section 4 C06",
        "note": "float64 delay tolerance 16 eps K|DM|(f^-2+fref^-2); a delay within float-evaluation error of a half-integer accepts either rounding",
        "technique": "property-based testing: Hypothesis vs exact-rational law; source tracing through index-coded data",
    },
    "C07": {
        "text": "Generated Phase operands (counts to 2^52, fractions incl. +-1/2, denormals, unnormalised inputs; scalars and arrays; real and imaginary) "
                "combined with every operand kind (Python/NumPy scalars, 0-d/n-d arrays, Quantities, Phases; both orders; in-place and out= forms) and "
                "checked against exact rational arithmetic to 2^-52 cycles: construction, + - neg abs, * / by dimensionless numbers (i*i = -1), floor "
                "division/remainder/divmod with angular divisors (q integral, q*d+r exact, r in [0,d), mutually consistent), sin/cos/exp(i phase) on the "
                "fraction only; results must be normalised two-part Phases. Exploration.",
        "ref": "DESIGN.md section 4 C07",
        "note": "Phase divisors are restricted to values that fit one double (the repaired code uses a Phase divisor as a regular Angle); |results| <= 2^52",
        "technique": "property-based testing: Hypothesis vs fractions.Fraction oracle",
    },
    "C08": {
        "text": "Generated tempo-format polyco texts (1..6 entries, NCOEFF not only multiples of 3, e/E/D/d exponents, signed coefficients, spans 15..1440 min, "
                "F0 0.1..1000 Hz, RPHASE to 1e12, contiguous/overlapping/gapped spans incl. sub-ms gaps, via StringIO or file, table/text subsets) "
                "checked against the tempo formula evaluated in exact rationals from the decimal strings: phase (scalar, 1-d, 2-d, column time arrays), "
                "f0 and derivatives, phasepol, time_at inversion, intervals vs exactly merged spans, ValueError outside, bit-identical repeat predictions "
                "after other calls (no hidden state). Exploration.",
        "ref": "DESIGN.md section 4 C08",
        "note": "tolerance 1e-8 cycles with 30*F0*span <= 4e6 cycles; TMIDs in a leap-second-free range; astropy's parsing of the TMID string trusted",
        "technique": "property-based testing: grammar-based text generation + exact-rational oracle; repeatability check for hidden state",
    },
    "C09": {
        "text": "Differential testing of an operation catalogue (26 public operations: slices, selections, time/frequency shifts, snippet, fast_len, "
                "concatenation, both dedispersions, polarisation conversions, STFT/ISTFT, ufunc expressions, signal_transform, like, container helpers) "
                "on generated signals whose Dask data is chunked per axis (whole, size-1, uneven; time axis whole or split) against the NumPy-backed "
                "twin: class, metadata, shape, dtype, values; result Dask-backed; laziness via a counting sentinel producer; synchronous, threaded and "
                "multiprocess schedulers; several results computed in one dask.compute call (task-key collisions). Exploration.",
        "ref": "DESIGN.md section 4 C09",
        "note": "dask.distributed is not installed; FFT-based operations may refuse a chunked transformed axis (by raising); FFT values within 8 eps (1+log2 N) max|x|",
        "technique": "property-based testing: differential (Dask vs NumPy twin) over a generated operation x chunking x scheduler space; joint-compute histories",
    },
    "C10": {
        "text": "Generated signals of every class split at generated cut points along time (repeated/end cuts, empty pieces, any pattern of pieces without "
                "start time) and along frequency (all alignments, odd pieces of even bands), re-joined flat and in three groupings (associativity) with the "
                "axis given as 0/'time'/-ndim/1/'freq'/1-ndim: data bit-identical, start time, rate, labels, class restored. Each of ~20 kinds of "
                "perturbation of one piece by at least one sample/channel (start time, order, overlap, gap, rate, chan_bw, centre, class, repetition; "
                "along time, frequency and trailing axes) must raise. Exploration.",
        "ref": "DESIGN.md section 4 C10",
        "note": "labels compared within (8+2d) ulp; sample-rate perturbations >= 1e-3 relative (documented isclose tolerance of the code)",
        "technique": "property-based testing: split/concatenate round trip, associativity, and refusal of generated perturbations",
    },
    "C11": {
        "text": "Rule-based state machine per reader over the four sample files and files written by the check with baseband (VDIF real/complex, 1-4 threads; "
                "DADA complex; multi-file GUPPI with OBSBW of either sign, LIN/CIRC; DADA Stokes with BW of either sign) and reader options (lower_sideband "
                "bool/array, squeeze, signal type, intensity): read and dask_read at frame/file boundaries, n = 0, offset_at(time_at(k)) absolute and "
                "relative, out-of-range requests, adjacent vs spanning reads, repeated reads, and 2-4 threads under a DRAWN interleaving of their "
                "seek/read events (proxy file handles owned by the harness); every result compared with a direct baseband read mapped by the documented "
                "transformation, GUPPI channels matched to labels by header frequency. Plus a 12-thread soak and joint Dask reads of two readers. Exploration.",
        "ref": "DESIGN.md section 4 C11",
        "note": "concurrency is decided under harness-chosen interleavings of file-handle events plus a free-running soak, not under OS timing; warnings are "
                "silenced while threads run (Python's warnings filters are not thread-safe)",
        "technique": "property-based testing: Hypothesis RuleBasedStateMachine with a reference model of the file; schedule-owning proxy for interleavings",
    },
    "C12": {
        "text": "Generated signals of every class (N 1..128, f4/f8/c8/c16, with/without start time, rates mHz..GHz in every unit) and snippet requests in "
                "each documented form (sample count int/float, duration in s..min, k*dt, absolute Time), whole and fractional, n 0..N incl. requests "
                "ending at the last sample: length, start_time = start + t/rate, bit-identity with z[t:t+n] for whole samples, extended-precision DFT "
                "interpolation for fractional t; every out-of-range/negative/Time-without-start request must raise ValueError. Exploration.",
        "ref": "DESIGN.md section 4 C12",
        "note": "duration/Time requests are converted to samples with the same public astropy arithmetic; requests within 4x the snapping band of its edge are skipped",
        "technique": "property-based testing: Hypothesis vs slice identity and longdouble DFT interpolation oracle",
    },
    "C13": {
        "text": "Generated dual-polarisation signals (both bases, c8/c16, nchan 1..5, 0..2 trailing dims, NumPy and Dask, noise / pure X,Y,L,R / zeros / "
                "mixed scales, amplitudes 1e-10..1e8) checked against the docstring formulas written out independently: conversion values, per-sample "
                "power, inverse restores, same-basis identity, Stokes from the linear formulas in either basis, I^2=Q^2+U^2+V^2, I>=0, I = summed "
                "intensity, handedness pinned by pure L/R, named component access, metadata carried; call sequences on one object (repeatability, "
                "no aliasing). Exploration.",
        "ref": "DESIGN.md section 4 C13",
        "note": "values compared at the input's precision (4e-6 relative for complex64, 1e-13 for complex128); output width is not asserted",
        "technique": "property-based testing: Hypothesis vs independently written formulas; call-sequence repeatability",
    },
    "C19": {
        "text": "real_to_complex on generated real arrays (N 0..130 of every residue mod 4, rank 1..3, every axis, f2/f4/f8/i2/i8/u1/bool, noise/tones/"
                "impulses) against an O(N^2) extended-precision evaluation of the definition, plus shape, dtype rule, real-part identity, linearity, tone "
                "mapping, complex refusal; and the reader path on real-sampled VDIF files written by the check (odd n, frame-crossing and >8192-sample "
                "reads) against the same reference on the file's samples. Exploration.",
        "ref": "DESIGN.md section 4 C19",
        "note": "tolerance 16 eps (1+log2 N) sqrt(N) max|x| at the precision scipy.fft computes in; numpy.fft reference for reads longer than 128 samples",
        "technique": "property-based testing: Hypothesis vs longdouble DFT-definition oracle; generated files for the reader path",
    },
    "C20": {
        "text": "Each of the 14 pb.fft names on generated inputs (rank 1..3, float/complex/integer/bool dtypes, negative and permuted axes, n/s shorter and "
                "longer, every norm) compared with numpy.fft (values) and scipy.fft (shape, dtype) on NumPy arrays and on Dask arrays chunked off the "
                "transformed axes (lazy via a counting sentinel; chunking on a transformed axis refused); the name table enumerated exhaustively. "
                "STFT/ISTFT on generated baseband signals (nchan 1..4, every alignment, nperseg odd/even/==len): exact sub-channel labels, per-segment "
                "DFT data, tones land in the labelled sub-channel, ISTFT restores data/rate/start/labels. Exploration.",
        "ref": "DESIGN.md section 4 C20",
        "note": "c2r transforms with a length-1 last axis and no explicit length are excluded (the references disagree among themselves there)",
        "technique": "property-based testing: differential against numpy.fft/scipy.fft; exact-rational label model for STFT",
    },
    "C14": {
        "text": "Rule-based state machine over a pool of signals on writable NumPy buffers (contiguous, strided along time or the last axis, Fortran order) "
                "and of array/Quantity/DM/chirp argument objects: any applicable operation of the 26-operation catalogue is applied to any pool member, "
                "earlier argument objects are re-used, calls that raise are made; results (often views of inputs) join the pool and every member is compared "
                "bytes-and-metadata with its creation snapshot after every step. A second sub-check calls every catalogue operation at a uniform rate on "
                "fresh signals, incl. shifts below the 1e-8 'no shift' threshold and repeated calls with the same argument object. Exploration.",
        "ref": "DESIGN.md section 4 C14",
        "note": "snapshot = dtype, shape, strides, data bytes, every metadata attribute, deep copy of meta; no rule uses out= or in-place operators",
        "technique": "property-based testing: Hypothesis RuleBasedStateMachine with a snapshot invariant over all inputs and outputs",
    },
    "C15": {
        "text": "Generated phase arrays (ties, near-ties down to 2^-52 at counts to 2^52, lanes of different magnitude, mixed signs; 1-d/2-d) against exact "
                "rational order: the six comparison operators vs Phase/number/Quantity in both orders; min/max/argmin/argmax/sort/argsort/ptp (methods and "
                "np.* dispatch, any axis) must return a correct answer under the exact order and normalised Phases. Rendering (to_string with precision "
                "0..25, alwayssign, format(), str(), arrays, imaginary) must be the exact value rounded to the digits shown; parsing of grammar-generated "
                "decimal strings (no dot, empty parts, leading zeros, 30 digits, e/E/d/D exponents, j, blanks; str/array/bytes) to within 2^-52, real stays "
                "real, and from_string(to_string(p)) == p. Exploration.",
        "ref": "DESIGN.md section 4 C15",
        "note": "pairs closer than 2^-52 but unequal are unconstrained; one open known finding K1 (default rendering 1.7e-16 instead of 1e-16 for one class of phases) "
                "is reported as KNOWN-FINDING and checked against its own wider bound",
        "technique": "property-based testing: Hypothesis + grammar-based string generation vs fractions/decimal oracle",
    },
    "C16": {
        "text": "Constructor fuzzing of all six classes against a model of the documented contract: generated array shapes (valid / too few dims / wrong "
                "fixed axis / empty sample / 0-d), 12 dtypes (allowed, safely castable, uncastable) on NumPy and Dask, and every metadata argument valid or "
                "one of several invalid kinds -- accepted iff the model accepts, ValueError otherwise; attribute assignment (refusals leave the object "
                "unchanged); like()/pickle/compute/persist/to_dask_array/rechunk reproduce every attribute; every object returned by a catalogue of "
                "library operations (stepped slices, index tuples on fixed/trailing axes, ufuncs, conversions) satisfies the contract or the call "
                "refuses. The same contract predicate is applied to every library output inside all other checks. Exploration.",
        "ref": "DESIGN.md section 4 C16",
        "note": "NaN/inf centre frequencies are not generated; valid sample_rate assignment on baseband signals is outside the property (it speaks of construction and library operations)",
        "technique": "property-based testing: constructor/assignment fuzzing against a contract model; contract invariant on all library outputs",
    },
    "C17": {
        "text": "Exhaustive enumeration of all elementwise NumPy ufuncs (nin<=2, nout<=2) x 7 dtypes x operand arrangements (signal alone; two signals with "
                "different metadata; signal with array, 0-d, broadcast array, scalar, dimensionless Quantity in both orders; out= and out=tuple; Dask) x "
                "classes admitting the result, each compared bit for bit with the ufunc on the raw arrays and required to carry the first signal operand's "
                "type and metadata; Hypothesis-generated operator expressions (22 operators, mixed classes, either side) and in-place chains (buffer identity "
                "through earlier views, dtype, refused casts); np.asarray/np.array with dtype/copy; reduce/accumulate/outer/at/reduceat/matmul refused.",
        "ref": "DESIGN.md section 4 C17",
        "note": "`quantity ==/!= signal` and comparisons whose right operand is a subclass instance are excluded (astropy / Python reflect them before the library is consulted)",
        "technique": "property-based testing: exhaustive ufunc enumeration + Hypothesis operator/in-place histories, differential against NumPy on .data",
    },
    "C18": {
        "text": "Generated-input search against an independent table of all 7-smooth numbers below 2^64: exhaustive for 0 <= N < 10^6 (10^7 thorough), "
                "at s-1, s, s+1 and the midpoint for the 7-smooth s < 2^62 (all of them in the thorough tier), Hypothesis integers over [0, 2^62), and "
                "fast_len on generated signals of every class (length, data identity, timestamps). Exploration, not proof: the range above 10^7 is sampled.",
        "ref": "DESIGN.md section 4 C18",
        "note": "trusts the four-nested-loop table generator in pbv/oracle.py and Python integer arithmetic",
        "technique": "property-based testing: exhaustive enumeration + Hypothesis integers vs table oracle; generated signals for fast_len",
    },
}

"""CLI:  python -m pbv.run <ID> --tier quick|thorough [--replay FILE] [--only SUB] [--procs N]

Runs every sub-check of one property against /repo's current working tree (or $PBV_REPO),
writes evidence/<ID>.json, prints VIOLATION / KNOWN-FINDING lines, exits 0 / 1 / 2.
"""

import os
import sys
import json
import time
import argparse
import importlib
import subprocess
import multiprocessing as mp
from pathlib import Path

os.environ.setdefault("PYTHONHASHSEED", "0")
os.environ.setdefault("OMP_NUM_THREADS", "1")
os.environ.setdefault("OPENBLAS_NUM_THREADS", "1")
os.environ.setdefault("MKL_NUM_THREADS", "1")

from . import core  # noqa: E402


def load(prop_id):
    mod = importlib.import_module(f"pbv.props.{prop_id.lower()}")
    return mod


def _job(args):
    prop_id, sub_name, tier, piece, npieces, seed0 = args
    try:
        mod = load(prop_id)
        sub = {s.name: s for s in mod.SUBS}[sub_name]
        return core.run_job(prop_id, sub, tier, piece, npieces, seed0)
    except BaseException as e:  # noqa
        import traceback

        return {"sub": sub_name, "piece": piece, "evaluations": 0, "nontrivial": [], "bulk_nt": 0, "labels": {},
                "samples": [], "excluded_known": {}, "known_still_failing": {}, "skipped_budget": 0,
                "failure": None, "wall_s": 0.0, "seed": 0, "inconclusive_budget": False,
                "harness_error": "".join(traceback.format_exception(type(e), e, e.__traceback__))[-3000:]}


def repo_info():
    import pulsarbat

    path = os.path.dirname(os.path.abspath(pulsarbat.__file__))
    root = os.path.dirname(path)
    head, dirty = "?", "?"
    try:
        head = subprocess.run(["git", "-C", root, "rev-parse", "HEAD"], capture_output=True, text=True).stdout.strip()
        dirty = bool(subprocess.run(["git", "-C", root, "status", "--porcelain", "--", "pulsarbat"],
                                    capture_output=True, text=True).stdout.strip())
    except Exception:
        pass
    return {"pulsarbat_path": path, "repo_head": head, "repo_dirty": dirty}


def versions():
    import numpy, scipy, astropy, dask, hypothesis  # noqa

    v = {"python": sys.version.split()[0], "numpy": numpy.__version__, "scipy": scipy.__version__,
         "astropy": astropy.__version__, "dask": dask.__version__, "hypothesis": hypothesis.__version__}
    try:
        import baseband

        v["baseband"] = baseband.__version__
    except Exception:
        pass
    return v


def write_replay(prop_id, sub_name, case, message, seed, tmp=True):
    d = core.VERIF / "replays" / ("tmp" if tmp else "") / prop_id
    d.mkdir(parents=True, exist_ok=True)
    fp = core.fingerprint([sub_name, case])
    p = d / f"{sub_name}-{fp}.json"
    p.write_text(json.dumps({"property": prop_id, "sub": sub_name, "message": message, "seed": seed,
                             "case": json.loads(core.jdump(case))}, indent=1))
    return p


def run_replay(prop_id, path):
    mod = load(prop_id)
    data = json.loads(Path(path).read_text())
    sub = {s.name: s for s in mod.SUBS}[data["sub"]]
    sub.replay(data["case"])


def main(argv=None):
    ap = argparse.ArgumentParser()
    ap.add_argument("prop")
    ap.add_argument("--tier", default=os.environ.get("VERIF_TIER", "quick"), choices=["quick", "thorough"])
    ap.add_argument("--replay")
    ap.add_argument("--only", action="append")
    ap.add_argument("--procs", type=int, default=None)
    ap.add_argument("--no-evidence", action="store_true")
    a = ap.parse_args(argv)
    prop_id = a.prop.upper()
    t0 = time.time()
    seed0 = core.base_seed()

    try:
        mod = load(prop_id)
        info = repo_info()
    except Exception:
        import traceback

        traceback.print_exc()
        print(f"HARNESS-ERROR property={prop_id} cannot import check or pulsarbat")
        return 2

    if a.replay:
        try:
            run_replay(prop_id, a.replay)
        except core.Violation as e:
            print(f"VIOLATION property={prop_id} replay={a.replay}")
            print("  " + str(e)[:1500])
            return 1
        print(f"replay ok: {a.replay}")
        return 0

    subs = [s for s in mod.SUBS if not a.only or s.name in a.only]
    violations, harness_errors = [], []

    # 1. regression tier: committed replays (seconds)
    replayed = 0
    rdir = core.VERIF / "replays" / prop_id
    if rdir.is_dir() and not a.only:
        for p in sorted(rdir.glob("*.json")):
            replayed += 1
            try:
                run_replay(prop_id, p)
            except core.Violation as e:
                violations.append((p.stem, str(p), str(e)))
            except Exception as e:  # noqa
                harness_errors.append(f"replay {p}: {type(e).__name__}: {e}")

    # 2. generated tier
    jobs = []
    for s in subs:
        k = s.pieces[a.tier]
        for piece in range(k):
            jobs.append((prop_id, s.name, a.tier, piece, k, seed0))
    procs = a.procs or int(os.environ.get("PBV_PROCS", "0")) or (16 if a.tier == "thorough" else 8)
    procs = max(1, min(procs, len(jobs), os.cpu_count() or 1))
    in_parent = {s.name for s in subs if getattr(s, "in_parent", False)}  # e.g. sub-checks that start processes themselves
    parent_jobs = [j for j in jobs if j[1] in in_parent]
    pool_jobs = [j for j in jobs if j[1] not in in_parent]
    if procs == 1 or not pool_jobs:
        results = [_job(j) for j in pool_jobs]
    else:
        ctx = mp.get_context("spawn")
        with ctx.Pool(procs, maxtasksperchild=1) as pool:
            results = pool.map(_job, pool_jobs, chunksize=1)
    results += [_job(j) for j in parent_jobs]

    # 3. merge
    per_sub = {}
    for r in results:
        m = per_sub.setdefault(r["sub"], {"evaluations": 0, "nontrivial": set(), "labels": {}, "samples": [],
                                          "excluded_known": {}, "known_still_failing": {}, "failures": [],
                                          "inconclusive_budget": False, "skipped_budget": 0})
        m["evaluations"] += r["evaluations"]
        m["nontrivial"].update(r["nontrivial"])
        m["bulk_nt"] = m.get("bulk_nt", 0) + r.get("bulk_nt", 0)
        for k, v in r["labels"].items():
            m["labels"][k] = m["labels"].get(k, 0) + v
        if len(m["samples"]) < 6:
            m["samples"].extend(r["samples"][: 6 - len(m["samples"])])
        for key in ("excluded_known", "known_still_failing"):
            for k, v in r[key].items():
                m[key][k] = m[key].get(k, 0) + v
        m["inconclusive_budget"] |= r["inconclusive_budget"]
        m["skipped_budget"] += r["skipped_budget"]
        if r["failure"] is not None:
            m["failures"].append((r["failure"], r["seed"]))
        if r["harness_error"]:
            harness_errors.append(f"{r['sub']}[{r['piece']}]: {r['harness_error']}")

    for name, m in per_sub.items():
        if m["failures"]:
            # one replay per failing sub-check: the smallest shrunk case
            (case, msg), seed = min(m["failures"], key=lambda f: len(core.jdump(f[0][0])))
            p = write_replay(prop_id, name, case, msg, seed)
            violations.append((name, str(p), msg))

    opened = core.open_findings(prop_id)
    for fid, f in opened.items():
        print(f"KNOWN-FINDING: property={prop_id} {fid}: {f['what']}")

    wall = time.time() - t0
    rule = " || ".join(f"[{s.name}] {s.rule}" for s in subs)
    samples = []
    for s in subs:
        for c in per_sub.get(s.name, {}).get("samples", [])[:3]:
            samples.append({"sub": s.name, "case": json.loads(core.jdump(c))})
    nt_total = sum(len(m["nontrivial"]) + m.get("bulk_nt", 0) for m in per_sub.values())
    ev = {
        "property_id": prop_id,
        "tier": a.tier,
        "seed": seed0,
        "level": "exploration",
        "coverage": {
            "evaluations": sum(m["evaluations"] for m in per_sub.values()),
            "distinct_nontrivial": nt_total,
            "rule": rule,
            "samples": samples,
            "exhaustive": bool(getattr(mod, "EXHAUSTIVE", {}).get(a.tier, False)) if hasattr(mod, "EXHAUSTIVE") else False,
            "per_subcheck": {
                name: {"evaluations": m["evaluations"], "distinct_nontrivial": len(m["nontrivial"]) + m.get("bulk_nt", 0),
                       "labels": dict(sorted(m["labels"].items())), "excluded_known": m["excluded_known"],
                       "known_still_failing": m["known_still_failing"],
                       "inconclusive_budget": m["inconclusive_budget"], "skipped_budget": m["skipped_budget"]}
                for name, m in per_sub.items()
            },
            "replays_rerun": replayed,
            "jobs": len(jobs),
            "procs": procs,
            **info,
            "versions": versions(),
        },
        "assumptions": list(getattr(mod, "ASSUMPTIONS", [])),
        "wall_s": round(wall, 2),
        "violations": len(violations),
    }
    if hasattr(mod, "EXTRA_EVIDENCE"):
        try:
            ev["coverage"].update(mod.EXTRA_EVIDENCE(a.tier, per_sub))
        except Exception:
            pass

    if not a.no_evidence and not a.only:
        edir = core.VERIF / "evidence"
        edir.mkdir(exist_ok=True)
        try:
            import jsonschema

            schema = json.loads(Path("/root/.vp/EVIDENCE.schema.json").read_text()) if Path(
                "/root/.vp/EVIDENCE.schema.json").exists() else json.loads((core.VERIF / "pbv" / "EVIDENCE.schema.json").read_text())
            jsonschema.validate(ev, schema)
        except ImportError:
            pass
        except Exception as e:  # noqa
            if not violations:
                harness_errors.append(f"evidence does not validate: {str(e)[:400]}")
        (edir / f"{prop_id}.json").write_text(json.dumps(ev, indent=1))

    summary = ", ".join(f"{n}: {m['evaluations']} cases/{len(m['nontrivial']) + m.get('bulk_nt', 0)} nt" for n, m in per_sub.items())
    print(f"[{prop_id} {a.tier} seed={seed0}] {summary}; replays={replayed}; {wall:.1f}s")
    for name, m in per_sub.items():
        if m["inconclusive_budget"]:
            print(f"  note: {name} hit its time budget ({m['skipped_budget']} cases skipped) -- inconclusive beyond that point")

    if violations:
        for name, p, msg in violations:
            print(f"VIOLATION property={prop_id} replay={p}")
            print(f"  [{name}] {msg[:1500]}")
        return 1
    if harness_errors:
        for h in harness_errors:
            print("HARNESS-ERROR " + h)
        return 2
    return 0


if __name__ == "__main__":
    sys.exit(main())

"""pbv.core -- runner plumbing shared by all property checks.

Nothing in here knows about a particular property.  It provides

* ``Violation``            the only exception that means "the property is broken"
* ``lib`` / ``must_raise``  wrappers that decide how an exception raised *by the library* is read
* ``Sub``                  one sub-check = generator + oracle (+ non-trivial rule), ``@given`` style
* ``MachineSub``           one sub-check driven by a Hypothesis ``RuleBasedStateMachine``
* ``run_job``              executes one (sub-check, piece) under Hypothesis with a derived seed
* evidence / replay / known-findings helpers

Exit codes (see run.py): 0 held, 1 VIOLATION, 2 harness error.
"""

import os
import sys
import json
import time
import hashlib
import traceback
from pathlib import Path

VERIF = Path(__file__).resolve().parent.parent
if str(VERIF / ".deps") not in sys.path:
    sys.path.append(str(VERIF / ".deps"))  # appended: /venv's own packages keep priority

REPO = os.environ.get("PBV_REPO", "/repo")
if sys.path[0] != REPO:
    sys.path.insert(0, REPO)  # the working tree wins over whatever is installed

import warnings  # noqa: E402

warnings.filterwarnings("ignore")

import hypothesis  # noqa: E402
from hypothesis import given, settings, HealthCheck, Phase as HPhase  # noqa: E402
from hypothesis.stateful import RuleBasedStateMachine, run_state_machine_as_test  # noqa: E402


class Violation(Exception):
    """The property under test does not hold for the current case."""


class HarnessError(Exception):
    """Something is wrong with the check itself (never reported as a violation)."""


def _has_lib_frame(tb):
    import pulsarbat

    root = os.path.dirname(os.path.abspath(pulsarbat.__file__))
    while tb is not None:
        if os.path.abspath(tb.tb_frame.f_code.co_filename).startswith(root):
            return True
        tb = tb.tb_next
    return False


class lib:
    """``with lib("time_shift"):`` -- the call inside must be accepted by the library.

    The generators only produce inputs which the property says are in the domain, so an exception
    coming out of the library here is a violation ("raises where it must succeed").  An exception
    that never passed through a pulsarbat frame is a harness bug and propagates unchanged.
    """

    def __init__(self, what, allow=(), any_exception=False):
        # any_exception: the body consists of nothing but the call the property speaks of (e.g. np.asarray(signal, dtype)),
        # so every exception is the library's refusal -- also one raised while binding arguments, which has no library frame
        self.what, self.allow, self.any = what, allow, any_exception

    def __enter__(self):
        return self

    def __exit__(self, et, ev, tb):
        if et is None or issubclass(et, (Violation, HarnessError)):
            return False
        if not issubclass(et, Exception):
            return False
        if self.allow and issubclass(et, self.allow):
            return False
        if self.any or _has_lib_frame(tb):
            last = traceback.format_exception(et, ev, tb)[-1].strip()
            where = traceback.extract_tb(tb)[-1]
            raise Violation(
                f"{self.what}: library raised on an input in the property's domain: {last} "
                f"[{os.path.basename(where.filename)}:{where.lineno}]"
            ) from ev
        return False


def must_raise(what, fn, excs=(ValueError,)):
    """The call must be refused with one of ``excs``; returning a value is a violation."""
    try:
        out = fn()
    except excs:
        return
    except Violation:
        raise
    except Exception as e:  # wrong exception type: the property names the type
        if _has_lib_frame(e.__traceback__) or True:
            raise Violation(f"{what}: expected {[x.__name__ for x in excs]}, got {type(e).__name__}: {e}")
    raise Violation(f"{what}: expected a refusal ({[x.__name__ for x in excs]}), got {_short(out)}")


def _short(x, n=200):
    s = repr(x)
    return s if len(s) <= n else s[:n] + "..."


def check(cond, msg, *a):
    if not cond:
        raise Violation(msg.format(*a) if a else msg)


# ------------------------------------------------------------------------------------------------
# seeds, fingerprints
# ------------------------------------------------------------------------------------------------


def base_seed():
    try:
        return int(os.environ.get("VERIF_SEED", "1"))
    except ValueError:
        return 1


def derive_seed(*parts):
    h = hashlib.blake2b(":".join(str(p) for p in parts).encode(), digest_size=8).hexdigest()
    return int(h, 16) % (2**63)


def jdump(obj):
    return json.dumps(obj, sort_keys=True, default=_jdefault)


def _jdefault(o):
    import numpy as np

    if isinstance(o, (np.integer,)):
        return int(o)
    if isinstance(o, (np.floating,)):
        return float(o)
    if isinstance(o, np.ndarray):
        return o.tolist()
    if isinstance(o, (set, frozenset, tuple)):
        return list(o)
    if isinstance(o, complex):
        return [o.real, o.imag]
    return repr(o)


def fingerprint(case):
    return hashlib.blake2b(jdump(case).encode(), digest_size=8).hexdigest()


# ------------------------------------------------------------------------------------------------
# per-job statistics
# ------------------------------------------------------------------------------------------------


class Stats:
    """Counts what a sub-check actually generated.  One instance per job."""

    MAX_SAMPLES = 4

    def __init__(self, sub_name, seed):
        self.sub = sub_name
        self.evaluations = 0
        self.nontrivial = set()
        self.labels = {}
        self.samples = []
        self.first = []
        self._nt_seen = 0
        self.excluded_known = {}
        self.known_still_failing = {}
        self.skipped_budget = 0
        self.bulk_nt = 0
        self.failure = None  # (case, message)
        self._cur = None
        self._cur_nt = False
        import random

        self._rng = random.Random(seed)  # only used for reservoir-sampling evidence samples

    # -- called by the runner
    def begin(self, case):
        self._cur, self._cur_nt = case, False

    def end(self):
        self.evaluations += 1
        if self._cur_nt and self._cur is not None:
            fp = fingerprint(self._cur)
            if fp not in self.nontrivial:
                self.nontrivial.add(fp)
                self._nt_seen += 1
                if len(self.first) < 2:
                    self.first.append(self._cur)
                elif len(self.samples) < self.MAX_SAMPLES:
                    self.samples.append(self._cur)
                else:
                    j = self._rng.randrange(self._nt_seen)
                    if j < self.MAX_SAMPLES:
                        self.samples[j] = self._cur

    # -- called by run_case
    def nt(self, flag=True):
        """Mark the current case as non-trivial by the sub-check's stated rule."""
        if flag:
            self._cur_nt = True

    def label(self, name, n=1):
        self.labels[name] = self.labels.get(name, 0) + n

    def set_case(self, case):
        self._cur = case

    def bulk(self, evaluations, nontrivial, samples=()):
        """for exhaustive enumerations: elements are distinct by construction"""
        self.evaluations += evaluations
        self.bulk_nt += nontrivial
        for s in samples:
            if len(self.first) < 3:
                self.first.append(s)

    def result(self):
        return {
            "sub": self.sub,
            "evaluations": self.evaluations,
            "nontrivial": sorted(self.nontrivial),
            "bulk_nt": self.bulk_nt,
            "labels": self.labels,
            "samples": self.first + self.samples,
            "excluded_known": self.excluded_known,
            "known_still_failing": self.known_still_failing,
            "skipped_budget": self.skipped_budget,
            "failure": self.failure,
        }


# ------------------------------------------------------------------------------------------------
# sub-checks
# ------------------------------------------------------------------------------------------------


class Sub:
    """A ``@given``-style sub-check.

    strategy : Hypothesis strategy producing a JSON-serialisable *case*
    run      : run(case, st) -> None, raises Violation; calls st.nt()/st.label()
    rule     : text of the non-trivial rule (copied into the evidence)
    quick / thorough : total number of cases per tier (split over `pieces` jobs)
    known    : optional  known(case) -> finding id | None   for *open* findings
    """

    kind = "given"

    def __init__(self, name, strategy, run, rule, quick=500, thorough=8000, known=None,
                 pieces_quick=2, pieces_thorough=16, budget_quick=75, budget_thorough=1500):
        self.name, self.strategy, self.run, self.rule = name, strategy, run, rule
        self.quick, self.thorough, self.known = quick, thorough, known
        self.pieces = {"quick": pieces_quick, "thorough": pieces_thorough}
        self.budget = {"quick": budget_quick, "thorough": budget_thorough}

    def execute(self, case, st):
        """run one case under the ambient state of the numeric stack that belongs to it (see `ambient`)"""
        with ambient(case, st):
            return self.run(case, st)

    def replay(self, case):
        st = Stats(self.name, 0)
        st.begin(case)
        try:
            self.execute(case, st)
        finally:
            cleanup_scratch()


def ambient(case, st=None):
    """The state of the numeric stack a case runs under: a results must not depend on np.errstate, NumPy print options or the warnings
    filter.  The state is a function of the case's content (not a separate draw), so a replay reproduces it."""
    import contextlib
    import numpy as np

    h = int(hashlib.sha256(json.dumps(case, sort_keys=True, default=str).encode()).hexdigest(), 16) % 6
    stack = contextlib.ExitStack()
    if h == 1:
        stack.enter_context(np.errstate(all="ignore"))
    elif h == 2:
        stack.enter_context(warnings.catch_warnings())
        warnings.simplefilter("ignore")
        stack.enter_context(np.errstate(all="warn"))
    elif h == 3:
        stack.enter_context(np.printoptions(precision=2, suppress=True, threshold=3, edgeitems=1, floatmode="fixed"))
    elif h == 4:
        stack.enter_context(np.errstate(all="ignore"))
        stack.enter_context(np.printoptions(precision=1, sign="+", linewidth=20))
    if st is not None and h in (1, 2, 3, 4):
        st.label("ambient_" + {1: "errstate_ignore", 2: "errstate_warn", 3: "printoptions", 4: "errstate+printoptions"}[h])
    return stack


class MachineSub(Sub):
    """A sub-check whose cases are histories produced by a RuleBasedStateMachine.

    machine : subclass of HistoryMachine (below); its executed steps are the case
    """

    kind = "machine"

    def __init__(self, name, machine, rule, quick=100, thorough=2000, steps_quick=12,
                 steps_thorough=25, **kw):
        super().__init__(name, None, None, rule, quick=quick, thorough=thorough, **kw)
        self.machine = machine
        self.steps = {"quick": steps_quick, "thorough": steps_thorough}

    def replay(self, case):
        st = Stats(self.name, 0)
        st.begin(case)
        self.machine.replay_history(case, st)


class HistoryMachine(RuleBasedStateMachine):
    """Base class: rules only *draw* arguments and call ``self.do(step)``.

    Sub-classes define ``model_cls`` -- a plain class with ``__init__(st)`` and ``apply(step)``,
    where a step is a JSON-serialisable list ``[name, args...]``.  The executed steps are the case;
    ``replay_history`` re-executes them without Hypothesis.
    """

    model_cls = None
    _stats = None  # set per job

    def __init__(self):
        super().__init__()
        self.steps = []
        self.st = type(self)._stats
        self.st.begin(None)
        self.model = self.model_cls(self.st)
        self._failed = False

    def do(self, step):
        self.steps.append(step)
        try:
            return self.model.apply(step)
        except Violation as e:
            self.st.failure = (list(self.steps), str(e))
            self._failed = True
            raise

    def teardown(self):
        try:
            if hasattr(self.model, "close"):
                self.model.close()
        finally:
            self.st.set_case(list(self.steps))
            self.st.end()

    @classmethod
    def replay_history(cls, steps, st):
        m = cls.model_cls(st)
        try:
            for s in steps:
                m.apply(s)
        finally:
            if hasattr(m, "close"):
                m.close()


def _settings(n, tier, stateful_steps=None):
    kw = dict(
        max_examples=max(1, n),
        database=None,
        deadline=None,
        derandomize=False,
        report_multiple_bugs=False,
        suppress_health_check=[HealthCheck.too_slow, HealthCheck.data_too_large,
                               HealthCheck.large_base_example],
        phases=[HPhase.generate, HPhase.target, HPhase.shrink],
        print_blob=False,
    )
    if stateful_steps:
        kw["stateful_step_count"] = stateful_steps
    return settings(**kw)


def open_findings(prop_id):
    p = VERIF / "known_findings.json"
    if not p.exists():
        return {}
    data = json.loads(p.read_text())
    return {f["id"]: f for f in data.get("findings", []) if f["property"] == prop_id and f["status"] == "open"}


_SCRATCH = []


def scratch_dir():
    """A per-process temporary directory (outside /repo and /verif), removed when the job ends."""
    import tempfile

    if not _SCRATCH:
        _SCRATCH.append(tempfile.mkdtemp(prefix="pbv-scratch-"))
    return _SCRATCH[0]


def cleanup_scratch():
    import shutil

    while _SCRATCH:
        shutil.rmtree(_SCRATCH.pop(), ignore_errors=True)


# -- optional line coverage of the library under test (tools/coverage_report.py; never used by a registered check) ---------
_COVER = {"dir": os.environ.get("PBV_COVER"), "lines": set(), "on": False}


def _cover_start():
    """sys.monitoring LINE events for code objects of the pulsarbat package; each line reports once (then DISABLE)"""
    if _COVER["on"] or not _COVER["dir"] or not hasattr(sys, "monitoring"):
        return
    mon = sys.monitoring
    tool = mon.COVERAGE_ID
    try:
        mon.use_tool_id(tool, "pbv-cover")
    except ValueError:
        return
    root = os.sep + "pulsarbat" + os.sep

    def on_line(code, line):
        if root in code.co_filename:
            _COVER["lines"].add((code.co_filename, line))
        return mon.DISABLE

    mon.register_callback(tool, mon.events.LINE, on_line)
    mon.set_events(tool, mon.events.LINE)
    _COVER["on"] = True


def _cover_dump(tag):
    if not _COVER["on"]:
        return
    os.makedirs(_COVER["dir"], exist_ok=True)
    path = os.path.join(_COVER["dir"], "lines-%s-%d.json" % (tag, os.getpid()))
    with open(path, "w") as f:
        json.dump(sorted(_COVER["lines"]), f)


def run_job(prop_id, sub, tier, piece, npieces, seed0):
    _cover_start()
    try:
        return _run_job(prop_id, sub, tier, piece, npieces, seed0)
    finally:
        _cover_dump("%s-%s-%d" % (prop_id, sub.name, piece))
        cleanup_scratch()


def _run_job(prop_id, sub, tier, piece, npieces, seed0):
    """Run one piece of one sub-check; returns a plain dict (picklable)."""
    import hypothesis.internal.conjecture.engine as eng

    if tier == "quick":
        eng.MAX_SHRINKING_SECONDS = 25
    total = sub.quick if tier == "quick" else sub.thorough
    n = -(-total // npieces)
    seed = derive_seed(seed0, prop_id, sub.name, piece)
    st = Stats(sub.name, seed)
    t0 = time.time()
    budget = float(os.environ.get("PBV_BUDGET", sub.budget[tier]))
    opened = open_findings(prop_id) if sub.known else {}
    harness = None

    # The budget is enforced BETWEEN Hypothesis runs, never inside a case (a time-dependent case would make generation
    # irreproducible): the n cases are generated in up to 8 consecutive runs with derived seeds; once the budget is spent the
    # remaining runs are skipped and the sub-check is reported as inconclusive beyond that point.
    nchunks = 1 if sub.kind == "enum" else max(1, min(8, n // 20))
    per = -(-n // nchunks)
    try:
        for chunk in range(nchunks):
            if chunk and time.time() - t0 > budget:
                st.skipped_budget += per * (nchunks - chunk)
                break
            cseed = derive_seed(seed, "chunk", chunk) if chunk else seed
            if sub.kind == "given":

                def body(case):
                    st.begin(case)
                    fid = sub.known(case) if (sub.known and opened) else None
                    if fid is not None and fid in opened:
                        st.excluded_known[fid] = st.excluded_known.get(fid, 0) + 1
                        try:
                            sub.execute(case, st)
                        except Violation:
                            st.known_still_failing[fid] = st.known_still_failing.get(fid, 0) + 1
                        return
                    try:
                        sub.execute(case, st)
                    except Violation as e:
                        st.failure = (case, str(e))
                        raise
                    except Exception as e:  # harness-side exception: remembered in case it turns out not to be reproducible
                        st.last_error = (case, "".join(traceback.format_exception(type(e), e, e.__traceback__))[-3000:])
                        raise
                    finally:
                        st.end()

                test = hypothesis.seed(cseed)(_settings(per, tier)(given(sub.strategy)(body)))
                test()
            elif sub.kind == "enum":
                try:
                    sub.fn(tier, piece, npieces, st, seed)
                except Violation as e:
                    if st.failure is None:
                        st.failure = (st._cur, str(e))
            else:
                mach = type(sub.machine.__name__, (sub.machine,), {})
                mach._stats = st
                run_state_machine_as_test(hypothesis.seed(cseed)(mach), settings=_settings(per, tier, sub.steps[tier]))
    except Violation:
        pass  # recorded in st.failure (the last failing execution = the shrunk one)
    except hypothesis.errors.Flaky as e:  # includes FlakyFailure
        # a case failed once and passed on re-execution: keep the recorded failure, flag it
        # Reported only if it reproduces outside Hypothesis (3 attempts); an irreproducible failure proves nothing and is counted.
        if st.failure is not None:
            again = None
            for _ in range(3):
                try:
                    sub.replay(st.failure[0])
                except Violation as v:
                    again = str(v)
                    break
                except Exception:
                    break
            if again is None:
                st.label("flaky_failure_not_reproduced")
                st.failure = None
            else:
                st.failure = (st.failure[0], "[failed, passed on Hypothesis' re-execution, failed again on replay] " + again)
        else:
            # an exception that is neither a Violation nor reproducible by Hypothesis' own re-execution: run the case three more times;
            # only a failure that shows up again is reported (as a harness error, with its traceback)
            last = getattr(st, "last_error", None)
            harness = "Flaky: " + str(e)[:500] if last is None else None
            if last is not None:
                for _ in range(3):
                    try:
                        sub.replay(last[0])
                    except BaseException as e2:  # noqa
                        harness = "Flaky, raised again on replay: " + "".join(traceback.format_exception(type(e2), e2, e2.__traceback__))[-2000:]
                        break
                if harness is None:
                    st.label("flaky_harness_exception_not_reproduced")
                    sys.stderr.write("[pbv] %s/%s: an exception was raised once and not again in 4 re-executions of the same case:\n%s\n"
                                     % (prop_id, sub.name, last[1]))
    except BaseException as e:  # noqa
        if isinstance(e, KeyboardInterrupt):
            raise
        # An exception group / wrapped violation?
        if st.failure is None:
            harness = "".join(traceback.format_exception(type(e), e, e.__traceback__))[-3000:]
    res = st.result()
    res.update(piece=piece, seed=seed, wall_s=time.time() - t0, harness_error=harness,
               inconclusive_budget=st.skipped_budget > 0)
    return res


class EnumSub(Sub):
    """A sub-check that enumerates a finite domain deterministically (no Hypothesis).

    fn(tier, piece, npieces, st, seed) iterates its slice of the domain, raising Violation(case-carrying)
    through ``st.failure``; it reports bulk counts with st.bulk(evaluations, nontrivial).
    replay_fn(case, st) re-checks one element.
    """

    kind = "enum"

    def __init__(self, name, fn, replay_fn, rule, pieces_quick=8, pieces_thorough=16, **kw):
        super().__init__(name, None, None, rule, pieces_quick=pieces_quick, pieces_thorough=pieces_thorough, **kw)
        self.fn, self.replay_fn = fn, replay_fn

    def replay(self, case):
        st = Stats(self.name, 0)
        st.begin(case)
        self.replay_fn(case, st)

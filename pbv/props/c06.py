"""C06 -- dispersion delays obey the f^-2 law; incoherent dedispersion realigns by them."""

import math
from fractions import Fraction as F

import numpy as np
import astropy.units as u
from hypothesis import strategies as st

from ..core import Sub, check, lib, must_raise, Violation
from .. import oracle as O, gen as G
from ..contract import contract, same_meta, assert_labels, rate_hz

EPS = 2.220446049250313e-16
ASSUMPTIONS = [
    "law: K*DM*(f^-2 - fref^-2), K = 10^6/241 s MHz^2 cm^3/pc, evaluated in exact rationals from the float values and exact unit scales",
    "float64 tolerance of a delay: 16 eps * K|DM| * (f^-2 + fref^-2)",
    "incoherent dedispersion is traced through index-coded data: every output sample decodes to (source time, channel, trailing index); "
    "a channel whose exact delay*rate is within float-evaluation error of a half-integer accepts either rounding",
    "an empty result or ValueError is accepted only when no output time has in-range sources in every channel by the conservative window "
    "len - (max(0, max r) - min(0, min r))",
]
DM_UNITS = {"pc / cm3": F(1), "kpc / cm3": F(1000), "pc / m3": F(1, 10**6), "pc / (cm2 m)": F(1, 100)}


# -- 1. the delay law ------------------------------------------------------------------------------


@st.composite
def law_case(draw):
    n = draw(st.integers(1, 5))
    fs = [draw(G.freq_q(5, 10.5, units=("Hz", "kHz", "MHz", "GHz"))) for _ in range(n)]
    sgn, ex = draw(st.tuples(st.sampled_from([-1, 1]), st.floats(-4, 4)))
    dmv = sgn * 10**ex
    return {"dm": dmv, "dm_unit": draw(st.sampled_from(["pc / cm3", "pc / cm3", "none", "kpc / cm3", "pc / m3", "pc / (cm2 m)"])),
            "fs": fs, "ref": draw(G.freq_q(5, 10.5, units=("Hz", "kHz", "MHz", "GHz"))), "rate": draw(G.freq_q(0, 9)),
            "as_array": draw(st.booleans()), "inf_ref": draw(st.integers(0, 9)) == 0, "dm_k": draw(st.sampled_from(G.DM_KINDS))}


def run_law(case, stt):
    import pulsarbat as pb

    if case["dm_unit"] == "none":
        D = pb.DM(case["dm"])
        dm = F(case["dm"])
    else:
        D = pb.DM(case["dm"] * u.Unit(case["dm_unit"]))
        dm = F(case["dm"]) * DM_UNITS[case["dm_unit"]]
    check(type(D) is pb.DispersionMeasure, "DM(...) is a {}", type(D).__name__)
    D, kf = G.dm_kind(pb, D, case.get("dm_k"))
    dm *= kf
    stt.label("constant_" + (case.get("dm_k") or "lib"))
    fr = O.fq(case["ref"])
    rate = O.fq(case["rate"])
    fq = [O.q(f) for f in case["fs"]]
    fex = [O.fq(f) for f in case["fs"]]
    refq = np.inf * u.Hz if case["inf_ref"] else O.q(case["ref"])

    def exact(f, r):
        fm = f / 10**6
        if r is None:
            return O.K_DM * dm / fm**2
        return O.disp_delay_s(dm, f, r)

    def tol(f, r):
        fm = f / 10**6
        t = O.K_DM * abs(dm) / fm**2
        if r is not None:
            t += O.K_DM * abs(dm) / (r / 10**6) ** 2
        return 16 * F(EPS) * t

    rex = None if case["inf_ref"] else fr
    if case["as_array"] and len(set(f["u"] for f in case["fs"])) == 1:
        arr = np.array([f["v"] for f in case["fs"]]) * O.unit(case["fs"][0]["u"])
        with lib("time_delay(array)"):
            got = D.time_delay(arr, refq)
            gs = D.sample_delay(arr, refq, O.q(case["rate"]))
        check(got.shape == (len(fex),), "time_delay(array) shape {}", got.shape)
        got = [g for g in got]
        gs = list(np.atleast_1d(gs))
    else:
        with lib("time_delay"):
            got = [D.time_delay(f, refq) for f in fq]
            gs = [D.sample_delay(f, refq, O.q(case["rate"])) for f in fq]
    for f, g, s in zip(fex, got, gs):
        check(g.unit == u.s, "time_delay unit {}", g.unit)
        e = exact(f, rex)
        d = abs(F(float(g.value)) - e)
        check(d <= tol(f, rex), "time_delay({} Hz, {} Hz) with DM {} {} = {!r} s, law gives {!r} s (diff {:.3g}, tol {:.3g})", float(f),
              "inf" if rex is None else float(rex), case["dm"], case["dm_unit"], float(g.value), float(e), float(d), float(tol(f, rex)))
        ds = abs(F(float(s)) - e * rate)
        check(ds <= 2 * tol(f, rex) * rate + 4 * F(EPS) * abs(e * rate), "sample_delay {} != time_delay*sample_rate {}", float(s), float(e * rate))
    if not case["inf_ref"]:
        # antisymmetry (exact) and additivity along the chain f0 -> f1 -> ... (within the float bound)
        with lib("time_delay chain"):
            for a, b, ea, eb in zip(fq, fq[1:], fex, fex[1:]):
                ab, ba = D.time_delay(a, b), D.time_delay(b, a)
                # (bit-exact when both frequencies carry the same unit; with mixed units the conversion of the second
                #  operand rounds differently in the two orders, so the float bound applies)
                asym = abs(F(float(ab.value)) + F(float(ba.value)))
                check(asym <= (0 if a.unit == b.unit else 2 * tol(ea, eb)), "time_delay(a,b) = {!r} but time_delay(b,a) = {!r}",
                      float(ab.value), float(ba.value))
            if len(fq) >= 3:
                tot = sum(F(float(D.time_delay(a, b).value)) for a, b in zip(fq, fq[1:]))
                direct = F(float(D.time_delay(fq[0], fq[-1]).value))
                bound = sum(tol(a, b) for a, b in zip(fex, fex[1:])) + tol(fex[0], fex[-1])
                check(abs(tot - direct) <= bound, "delays are not additive along a chain of frequencies: sum {} vs direct {}", float(tot), float(direct))
    stt.nt(case["dm_unit"] not in ("pc / cm3", "none") or len(set(f["u"] for f in case["fs"] + [case["ref"]])) > 1)
    stt.label("dm_unit_" + case["dm_unit"])
    stt.label("dm_neg" if case["dm"] < 0 else "dm_pos")
    stt.label("inf_ref" if case["inf_ref"] else "finite_ref")


# -- 2. incoherent dedispersion -------------------------------------------------------------------------------


REFSEL = ["none", "center", "lo", "hi", "above", "below", "inside", "far_below"]


@st.composite
def idd_case(draw):
    spec = draw(G.signal_spec(classes=G.RADIO, nmin=1, nmax=200, nchan_max=17, max_trailing=1, positive_band=True, ratio_lo=1e-6,
                              sr=G.freq_q(-1, 8), dtypes=["f4", "f8", "c8", "c16", "i8"]))
    if draw(st.integers(0, 7)) == 0:
        # a band around zero frequency (labels of both signs, none of them zero): the law is even in f, so delays are not monotonic along it
        nchan = spec["sshape"][0]
        bw = O.fq(spec["sr"]) if spec["cls"] in G.BASEBAND else O.fq(spec["bw"])
        j = draw(st.integers(-(nchan // 2), nchan // 2))
        un = spec["cf"]["u"]
        spec["cf"] = {"v": float(bw * (F(j) + F(1, 4)) / O.FREQ_UNITS[un]), "u": un}
    sel = draw(st.sampled_from(REFSEL))
    labels = G.exact_labels(spec)
    fr = ref_freq(spec, sel)
    rate = O.fq(spec["sr"])
    d1 = max(abs(O.disp_delay_s(F(1), f, fr) * rate) for f in labels)
    if sel == "far_below" and len(labels) > 1:
        dd = [O.disp_delay_s(F(1), f, fr) * rate for f in labels]
        d1 = max(dd) - min(dd) or d1  # scale the DM by the spread across the band, not by the (huge) common delay
    sgn = draw(st.sampled_from([-1, 1]))
    if d1 > 0:
        want = draw(st.one_of(st.floats(0.0, 1.0), st.floats(0.0, 0.2), st.floats(0.8, 2.0), st.integers(0, 6).map(float))) * max(spec["n"], 4)
        if draw(st.booleans()):
            want = min(want, 8.0)  # a few samples: distinct small per-channel delays
        dmv = sgn * float(F(want) / d1)
        dmv = math.copysign(min(abs(dmv), 1e9), dmv)
    else:
        dmv = sgn * 10 ** draw(st.floats(-3, 3))
    return {"sig": spec, "dm": dmv, "ref": sel, "dm_unit": draw(st.sampled_from(["none", "pc / cm3", "kpc / cm3", "pc / m3"])),
            "dm_k": draw(st.sampled_from(G.DM_KINDS))}


def ref_freq(spec, sel):
    nchan = spec["sshape"][0]
    cf = O.fq(spec["cf"])
    bw = O.fq(spec["sr"]) if spec["cls"] in G.BASEBAND else O.fq(spec["bw"])
    lo, hi = cf - bw * nchan / 2, cf + bw * nchan / 2
    r = {"none": cf, "center": cf, "lo": lo, "hi": hi, "above": hi * F(3, 2), "below": lo * F(2, 3), "inside": lo + (hi - lo) * F(1, 3),
         # a reference far from the band: every delay is billions of samples, their SPREAD is what realigns the channels
         "far_below": lo * F(1, 3000)}[sel]
    return F(float(r)) if sel != "none" else cf


def run_idd(case, stt):
    import pulsarbat as pb

    spec = case["sig"]
    z = G.build(spec)
    N = spec["n"]
    nchan = spec["sshape"][0]
    trail = int(np.prod(spec["sshape"][1:])) if len(spec["sshape"]) > 1 else 1
    rate = O.fq(spec["sr"])
    labels = G.exact_labels(spec)
    fr = ref_freq(spec, case["ref"])
    if case["dm_unit"] == "none":
        D, dm = pb.DM(case["dm"]), F(case["dm"])
    else:
        sc = DM_UNITS[case["dm_unit"]]
        val = float(F(case["dm"]) / sc)
        D, dm = pb.DM(val * u.Unit(case["dm_unit"])), F(val) * sc
    D, kf = G.dm_kind(pb, D, case.get("dm_k"))
    dm *= kf
    stt.label("constant_" + (case.get("dm_k") or "lib"))
    kw = {} if case["ref"] == "none" else {"ref_freq": float(fr) * u.Hz}
    ds = [O.disp_delay_s(dm, f, fr) * rate for f in labels]
    if spec["t0"] and max(abs(d) for d in ds) / rate > 10**8:
        # (a common delay of more than three years: the new start time would leave the range of dates astropy can convert)
        stt.label("skip_delay_beyond_calendar")
        return
    fz = max(O.delay_fuzz(dm, f, fr, rate) for f in labels) if dm != 0 else 0
    cand = []
    for d in ds:
        fl = math.floor(d)
        fr_ = d - fl
        if abs(fr_ - F(1, 2)) < fz or fz >= F(1, 4):
            cand.append({fl, fl + 1} if fz < F(1, 4) else {fl - 1, fl, fl + 1, fl + 2})
        elif fr_ < F(1, 2):
            cand.append({fl})
        else:
            cand.append({fl + 1})
    if fz >= F(1, 4):
        stt.label("skip_delay_not_resolvable_in_float64")
        return
    rmax, rmin = max(max(c) for c in cand), min(min(c) for c in cand)
    window_cons = N - (max(0, rmax) - min(0, rmin))
    try:
        y = pb.incoherent_dedispersion(z, D, **kw)
    except ValueError as e:
        # "only samples with in-range sources in every channel are returned": when there are none, that is an empty signal -- as for a delay
        # spread of twice the length or more, and as coherent dedispersion does -- not an error from the array stacking underneath
        raise Violation("incoherent_dedispersion raised ValueError (%s); %d output times have in-range sources in every channel%s" % (
            str(e)[:80], max(window_cons, 0), "" if window_cons > 0 else ": expected an empty signal"))
    except Exception as e:  # any other exception from the library on a valid input
        raise Violation(f"incoherent_dedispersion raised {type(e).__name__}: {e}")
    contract(y, "incoherent_dedispersion")
    check(type(y) is type(z), "type changed to {}", type(y).__name__)
    same_meta(y, z, "incoherent_dedispersion: ")
    assert_labels(y, labels, 0, "incoherent_dedispersion: ")
    check(y.shape[1:] == z.shape[1:], "sample shape changed {} -> {}", z.shape[1:], y.shape[1:])
    check(y.data.dtype == z.data.dtype, "dtype changed")
    L = len(y)
    if L == 0:
        check(window_cons <= 0, "empty result although {} output times have in-range sources in every channel", window_cons)
        stt.label("empty_result")
        return
    out = np.asarray(y.data.real if np.iscomplexobj(y.data) else y.data).astype(np.float64)
    idx = np.rint(out).astype(np.int64)
    check(np.array_equal(idx, out), "output holds values that are not input samples")
    t_src = idx // (nchan * trail)
    ch = (idx // trail) % nchan
    tr = idx % trail
    shape = (L, nchan) + tuple(spec["sshape"][1:])
    want_ch = np.broadcast_to(np.arange(nchan).reshape((1, nchan) + (1,) * (len(shape) - 2)), shape)
    want_tr = np.broadcast_to(np.arange(trail).reshape((1, 1) + tuple(spec["sshape"][1:])), shape) if trail > 1 else np.zeros(shape, int)
    check(np.array_equal(ch, want_ch), "an output channel holds samples of a different input channel")
    check(np.array_equal(tr, want_tr), "trailing dimensions were mixed up")
    check(t_src.min() >= 0 and t_src.max() < N, "source index out of range")
    # per channel: t_src[k, i] - k must be one constant s_i (pure shift)
    k = np.arange(L).reshape((L,) + (1,) * (len(shape) - 1))
    sh = t_src - k
    s_i = sh[(0, slice(None)) + (0,) * (len(shape) - 2)]
    check(np.array_equal(sh, np.broadcast_to(s_i.reshape((1, nchan) + (1,) * (len(shape) - 2)), shape)), "a channel was not moved rigidly")
    if z.start_time is not None:
        c = (O.T(y.start_time) - O.T(z.start_time)) * rate
        check(abs(c - round(c)) <= F(1, 100) + O.time_tol(1, c / rate) * rate, "output start_time is {} samples from the input grid", float(c - round(c)))
        c = int(round(c))
        for i in range(nchan):
            check(int(s_i[i]) - c in cand[i],
                  "channel {} (label {} Hz): output at absolute time T holds the input sample at T + {} samples; its delay is {:.6g} samples -> round = {}",
                  i, float(labels[i]), int(s_i[i]) - c, float(ds[i]), sorted(cand[i]))
    else:
        check(y.start_time is None, "a signal without start time acquired one")
        # common offset: s_i - r_i constant over channels for some admissible choice of r_i
        base = [set(int(s_i[i]) - r for r in cand[i]) for i in range(nchan)]
        common = set.intersection(*base)
        check(common, "channels are not realigned by their rounded delays: shifts {} vs rounded delays {}", [int(v) for v in s_i],
              [sorted(c) for c in cand])
    rr = [min(c, key=lambda r: abs(r - d)) for c, d in zip(cand, ds)]
    distinct_nonzero = len(set(r for r in rr if r != 0)) >= 2
    stt.nt(nchan >= 2 and distinct_nonzero and any(r < 0 for r in rr))
    stt.label(spec["cls"])
    stt.label("ref_" + case["ref"])
    stt.label("start" if spec["t0"] else "nostart")
    stt.label("delays_distinct" if len(set(rr)) > 1 else "delays_equal")
    stt.label("even_edge_aligned" if nchan % 2 == 0 and spec["align"] != "center" else "centered")
    stt.label("dm_unit_" + case["dm_unit"])
    if min(labels) < 0 < max(labels):
        stt.label("band_straddles_zero")
        if any(rr[i] > max(rr[i - 1], rr[i + 1]) or rr[i] < min(rr[i - 1], rr[i + 1]) for i in range(1, nchan - 1)):
            stt.label("delays_not_monotonic_along_band")


@st.composite
def idd_hist_case(draw):
    base = draw(idd_case())
    steps = [draw(st.sampled_from(["same", "same", "dm", "ref", "start", "data_len", "align", "dm_unit", "rate"])) for _ in range(draw(st.integers(1, 4)))]
    return {"base": base, "steps": steps, "pick": draw(st.integers(0, 10**6)), "one_object": draw(st.sampled_from([False, True, "refusals"]))}


def run_idd_hist(case, stt):
    """the same incoherent dedispersion again and again in one process, one ingredient changed per step (caches of delays etc.)"""
    import copy

    cur = copy.deepcopy(case["base"])
    one = G.OneObject(case.get("one_object", False), cur["sig"])
    one.run(run_idd, cur, stt)
    k = case["pick"]
    for i, step in enumerate(case["steps"]):
        cur = copy.deepcopy(cur)
        sg = cur["sig"]
        if step == "dm":
            cur["dm"] = cur["dm"] * [2.0, -1.0, 0.5][(k + i) % 3]
        elif step == "ref":
            cur["ref"] = REFSEL[(REFSEL.index(cur["ref"]) + 1 + (k + i) % 5) % len(REFSEL)]
        elif step == "start":
            sg["t0"] = None if sg["t0"] else {"mjd": 58000 + (k % 100), "frac": 0.125}
        elif step == "data_len":
            sg["n"] = max(1, sg["n"] + [-1, 1, 7][(k + i) % 3])
        elif step == "align":
            sg["align"] = [a for a in ("bottom", "center", "top") if a != sg["align"]][(k + i) % 2]
        elif step == "dm_unit":
            cur["dm_unit"] = ["none", "pc / cm3", "kpc / cm3", "pc / m3"][(k + i) % 4]
        elif step == "rate":
            f = [2.0, 0.5, 4.0][(k + i) % 3]
            sg["sr"] = dict(sg["sr"], v=sg["sr"]["v"] * f)
            if sg["cls"] in G.BASEBAND:
                sg["cf"] = dict(sg["cf"], v=sg["cf"]["v"] * f)  # (channel width follows the rate: keep the band positive)
        one.run(run_idd, cur, stt)
        stt.label("hist_" + step)
    stt.label("one_object_reassigned" if one.reused > 1 else "fresh_objects")
    stt.nt("same" in case["steps"] or len(case["steps"]) >= 2)


@st.composite
def idd_long_case(draw):
    base = draw(idd_case())
    n = draw(st.sampled_from([2000, 4096, 10007, 70001]))
    base["sig"]["n"] = n
    base["sig"]["sshape"] = base["sig"]["sshape"][:1] + base["sig"]["sshape"][1:2]
    base["sig"]["sshape"][0] = min(base["sig"]["sshape"][0], 6)
    if base["sig"]["dtype"] in ("f4", "c8"):
        base["sig"]["dtype"] = "f8" if base["sig"]["cls"] not in G.BASEBAND else "c16"  # index-coded data must stay exact
    if base["sig"]["cls"] in ("IntensitySignal", "FullStokesSignal") and base["sig"]["dtype"] not in ("f8",):
        base["sig"]["dtype"] = "f8"
    base["dm"] = base["dm"] * n / 100.0
    return base


def run_err(spec, stt):
    import pulsarbat as pb

    z = G.build(spec)
    must_raise("incoherent_dedispersion of a plain Signal", lambda: pb.incoherent_dedispersion(z, pb.DM(1.0)), (TypeError,))
    stt.nt()


SUBS = [
    Sub("delay_law", law_case(), run_law,
        "DM of either sign over 8 decades in pc/cm3 and equivalent units, 1..5 frequencies (scalars or one array) and a reference in Hz..GHz, "
        "also infinite reference; antisymmetry and chain additivity; non-trivial = a DM unit other than pc/cm3 or mixed frequency units",
        quick=1500, thorough=30000),
    Sub("incoherent", idd_case(), run_idd,
        "every radio class (incl. complex baseband and 4-Stokes), nchan 1..17, alignments, positive band, reference inside/outside, N 1..200, "
        "with/without start time, trailing dims, index-coded data traced sample by sample; non-trivial = >= 2 channels with distinct non-zero "
        "rounded delays of which one is negative", quick=2500, thorough=50000, pieces_quick=4),
    Sub("call_history", idd_hist_case(), run_idd_hist,
        "the same incoherent dedispersion repeated 2..5 times in one process (identical, or with DM / reference / start time / length / alignment "
        "/ DM unit / sample rate changed one at a time), every result traced; half of the histories run on ONE signal object re-assigned through its setters / in-place ufuncs between the calls, the others on fresh signals; non-trivial = an identical repeat or >= 2 steps", quick=400, thorough=8000,
        pieces_quick=4),
    Sub("long_signals", idd_long_case(), run_idd, "N in {2000, 4096, 10007, 70001}, up to 6 channels, delays scaled with N; non-trivial as above",
        quick=40, thorough=600, pieces_quick=4),
    Sub("refusal", G.signal_spec(classes=["Signal"], nmin=2, nmax=8, max_trailing=1), run_err, "plain Signal must raise TypeError", quick=30,
        thorough=300, pieces_quick=1),
]

"""C14 -- no operation modifies the signal or arguments it is given."""

import copy

import numpy as np
import astropy.units as u
from hypothesis import strategies as st
from hypothesis.stateful import rule, initialize, precondition

from ..core import MachineSub, Sub, HistoryMachine, Violation, check, lib
from .. import oracle as O, gen as G, catalogue as C

ASSUMPTIONS = [
    "a snapshot is: type, dtype, shape, strides, the bytes of the (possibly non-contiguous) data, every public metadata attribute with exact "
    "values, and a deep copy of meta; for array / Quantity / DM arguments: dtype, shape, unit and bytes",
    "every object that ever entered the pool (inputs AND library outputs, which may be views of inputs) is re-compared after every step",
    "no rule uses out= or in-place operators (the sanctioned mutations)",
]


def snap_array(x):
    if isinstance(x, u.Quantity):
        v = np.asarray(x.value)
        return ("Q", str(x.unit), v.dtype.str, v.shape, np.ascontiguousarray(v).tobytes())
    v = np.asarray(x)
    return ("A", v.dtype.str, v.shape, v.strides, np.ascontiguousarray(v).tobytes())


def snap_signal(z):
    import pulsarbat as pb

    d = z.data
    out = {"type": type(z).__name__, "dtype": d.dtype.str, "shape": d.shape, "strides": d.strides, "bytes": np.ascontiguousarray(d).tobytes(),
           "rate": snap_array(z.sample_rate), "start": None if z.start_time is None else (z.start_time.jd1, z.start_time.jd2, z.start_time.scale),
           "meta": copy.deepcopy(z.meta)}
    if isinstance(z, pb.RadioSignal):
        out.update(cf=snap_array(z.center_freq), bw=snap_array(z.chan_bw), align=z.freq_align)
    if isinstance(z, pb.DualPolarizationSignal):
        out["pol"] = z.pol_type
    return out


def diff(a, b):
    return [k for k in a if a[k] != b.get(k)]


class Pool:
    """steps: ["new", spec, layout] | ["op", idx, name, args] | ["reuse", idx, name] | ["bad", idx, kind] | ["join", idx, k, metas, drop] | ["numpy_copy", idx, kind]"""

    MAX = 10

    def __init__(self, stt):
        self.st = stt
        self.sigs = []  # (signal, snapshot, provenance)
        self.args = []  # (object, snapshot, description)
        self.uses = {}
        self.last_arg = {}

    def apply(self, step):
        getattr(self, "s_" + step[0])(*step[1:])
        self.verify(step)

    def verify(self, step):
        for i, (z, s0, prov) in enumerate(self.sigs):
            s1 = snap_signal(z)
            bad = diff(s0, s1)
            check(not bad, "after step {}: signal #{} ({}, {}) was modified: {} changed", step[:3], i, s0["type"], prov, bad)
        for i, (o, s0, desc) in enumerate(self.args):
            check(snap_array(o) == s0, "after step {}: argument #{} ({}) was modified", step[:3], i, desc)

    def add(self, z, prov):
        import pulsarbat as pb

        if isinstance(z, pb.Signal) and isinstance(z.data, np.ndarray) and all(z is not s for s, _, _ in self.sigs):
            if len(self.sigs) < self.MAX:
                self.sigs.append((z, snap_signal(z), prov))

    def add_arg(self, o, desc):
        if len(self.args) < 12:
            self.args.append((o, snap_array(o), desc))

    # -- steps
    def s_new(self, spec, layout):
        x = G.mk_data(spec)
        nf = spec.get("nonfinite")
        if nf and x.size:
            # a few NaN / Inf samples: "every input signal" includes bad samples
            flat = x.reshape(-1)
            for j, v in zip(nf["at"], [np.nan, np.inf, -np.inf]):
                flat[j % flat.size] = v
            self.st.label("nonfinite_data")
        if layout == "strided_time":
            big = np.zeros((2 * x.shape[0],) + x.shape[1:], dtype=x.dtype)
            big[::2] = x
            big[1::2] = 7
            x = big[::2]
        elif layout == "strided_last" and x.ndim >= 2:
            big = np.zeros(x.shape[:-1] + (2 * x.shape[-1],), dtype=x.dtype)
            big[..., ::2] = x
            x = big[..., ::2]
        elif layout == "fortran" and x.ndim >= 2:
            x = np.asfortranarray(x)
        elif layout == "readonly":
            x.flags.writeable = False  # e.g. a memory-mapped file opened for reading: nothing may need to write into it
        z = G.build(spec, data=x)
        check(z.data is x or z.data.dtype != x.dtype or True, "harness")
        self.sigs.append((z, snap_signal(z), "created(%s)" % layout))
        self.st.label("layout_" + layout)

    def pick(self, idx):
        return self.sigs[idx % len(self.sigs)][0]

    def s_op(self, idx, name, args):
        import pulsarbat as pb

        z = self.pick(idx)
        op = C.OPS[name]
        key = idx % len(self.sigs)
        self.uses[key] = self.uses.get(key, 0) + 1
        if self.uses[key] >= 2:
            self.st.nt()
        a = copy.deepcopy(args)
        try:
            if name == "time_shift":
                arg = C.mk_tshift_arg(z, a)
                if not np.isscalar(arg) or isinstance(arg, u.Quantity):
                    self.add_arg(arg, "time_shift shift")
                r = C.r_tshift(pb, z, a, arg=arg)
            elif name == "freq_shift":
                arg = C.mk_fshift_arg(z, a)
                self.add_arg(arg, "freq_shift shift %s" % arg.unit)
                self.last_arg["freq_shift"] = (arg, a)
                r = C.r_fshift(pb, z, a, arg=arg)
            elif name == "coherent_dedispersion":
                D, kw = C.dm_for(pb, z, a)
                self.add_arg(D, "DM")
                ch = None
                if a["chirp"]:
                    ch = np.asarray(D.chirp_from_signal(z, **kw))
                    self.add_arg(ch, "chirp array")
                r = C.r_cdd(pb, z, a, DM=D, chirp=ch)
            elif name == "incoherent_dedispersion":
                D, kw = C.dm_for(pb, z, a)
                self.add_arg(D, "DM")
                r = C.r_idd(pb, z, a, DM=D)
            else:
                r = op.run(pb, z, a)
        except Violation:
            raise
        except Exception as e:
            # whether the call succeeds or raises, nothing may change (verified by the caller)
            if "read-only" in str(e):
                raise Violation("%s(%s) tried to write into its read-only input: %s" % (name, args, str(e)[:120]))
            self.st.label("raised_" + name)
            return
        self.add(r, name)
        self.st.label("op_" + name)

    def s_reuse(self, idx):
        """second call with the very same argument object as an earlier freq_shift"""
        import pulsarbat as pb

        if "freq_shift" not in self.last_arg:
            return
        arg, a = self.last_arg["freq_shift"]
        z = self.pick(idx)
        if not isinstance(z, pb.BasebandSignal):
            return
        try:
            r = pb.freq_shift(z, arg)
        except Exception:
            self.st.label("raised_reuse")
            return
        self.add(r, "freq_shift(reused arg)")
        self.st.nt()
        self.st.label("op_reuse_arg")

    def s_join(self, idx, k, metas, drop_start):
        """concatenate pieces that carry DIFFERENT metadata dicts (and optionally lack a start time); the pieces are inputs like any other"""
        import pulsarbat as pb

        z = self.pick(idx)
        cut = k % (len(z) + 1)
        M = [{"first": 1}, {"later": 2, "first": 9}, None, {}, {"n": {"k": [1, 2]}, "later": 0}]
        pieces = [type(q).like(q, meta=copy.deepcopy(M[m % len(M)])) for q, m in zip([z[:cut], z[cut:]], metas)]
        if drop_start:
            pieces[1].start_time = None
        snaps = [snap_signal(q) for q in pieces]
        try:
            r = pb.concatenate(pieces)
            self.add(r, "concatenate(pieces with own meta)")
            self.st.label("op_join")
        except Exception:
            self.st.label("raised_join")
        for i, (q, s0) in enumerate(zip(pieces, snaps)):
            bad = diff(s0, snap_signal(q))
            check(not bad, "concatenate of pieces with metas {}: piece #{} was modified: {} changed", [M[m % len(M)] for m in metas], i, bad)
        for q in pieces:
            self.add(q, "piece")
        if M[metas[0] % len(M)] != M[metas[1] % len(M)]:
            self.st.nt()

    def s_dicts(self, idx, k, dask_too):
        """a decorated signal_transform given caller-owned signal_kwargs / dask_kwargs dicts: the dicts are arguments like any other"""
        import pulsarbat as pb

        z = self.pick(idx)
        if z.data.dtype.kind not in "fc":
            return
        sk, dk = {"meta": {"note": [1, 2]}}, {"meta": np.empty((0,) * z.ndim, dtype=z.data.dtype)} if k % 2 else {}
        sk0, dk0 = copy.deepcopy(sk), {a: (v.copy() if isinstance(v, np.ndarray) else v) for a, v in dk.items()}
        t = pb.signal_transform(C._affine)
        try:
            target = z.to_dask_array() if dask_too else z
            r = t(target, k=float(1 + k % 3), b=0.5, signal_kwargs=sk, dask_kwargs=dk)
            r2 = t(target, signal_kwargs=sk, dask_kwargs=dk)  # a second call with fewer keywords, same dicts
            if dask_too:
                got, want = np.asarray(r2.data), np.asarray(z.data) * 1.0 + 0.0
                check(np.array_equal(got, want, equal_nan=True), "a second call of the same decorated transform without keywords did not use the "
                      "function's defaults (keywords of the first call leaked through the dicts)")
            self.add(r, "signal_transform(dicts)")
            self.st.label("op_transform_dicts")
        except Violation:
            raise
        except Exception:
            self.st.label("raised_transform_dicts")
        check(sk == sk0, "signal_transform modified the signal_kwargs dict it was given: {} -> {}", sk0, sk)
        check(set(dk) == set(dk0), "signal_transform modified the dask_kwargs dict it was given: keys {} -> {}", sorted(dk0), sorted(dk))
        self.st.nt()

    def s_numpy_copy(self, idx, kind):
        """conversions through the array protocol that hand the caller (or a NumPy function) a private copy: what is then written into the copy
        stays in the copy.  np.nan_to_num / np.array / np.copy / np.array(dtype=...) / np.sort / np.clip-free functions all promise a new array."""
        z = self.pick(idx)
        x = z.data
        with lib("NumPy copy of a signal (%s)" % kind):
            if kind == "nan_to_num":
                c = np.nan_to_num(z, nan=1.5, posinf=2.5, neginf=-2.5)
            elif kind == "array":
                c = np.array(z)
            elif kind == "array_copy_true":
                c = np.array(z, copy=True)
            elif kind == "copy":
                c = np.copy(z)
            elif kind == "array_dtype_same":
                c = np.array(z, dtype=x.dtype)
            elif kind == "astype_like":
                c = np.array(z, dtype=np.complex128 if x.dtype.kind == "c" else np.float64)
            else:
                c = np.sort(z, axis=0) if x.dtype.kind != "c" else np.sort_complex(z)
        c = np.asarray(getattr(c, "data", c)) if not isinstance(c, np.ndarray) else c
        if c.size and c.flags.writeable:
            c[...] = 7  # the caller's copy is the caller's
        self.st.label("numpy_copy_" + kind)
        self.st.nt()

    def s_bad(self, idx, kind):
        import pulsarbat as pb

        z = self.pick(idx)
        n = len(z)
        calls = {
            "snippet_past_end": lambda: pb.snippet(z, n, 1),
            "snippet_negative": lambda: pb.snippet(z, -1, 1),
            "concat_gap": lambda: pb.concatenate([z[: n // 2], z[n // 2 + 1 :]]) if z.start_time is not None and n > 2 else (_ for _ in ()).throw(ValueError()),
            "concat_types": lambda: pb.concatenate([z, pb.Signal(z.data, sample_rate=z.sample_rate)]) if type(z) is not pb.Signal else (_ for _ in ()).throw(TypeError()),
            "tshift_dims": lambda: pb.time_shift(z, np.ones((1,) * z.ndim)),
            "fshift_nonbaseband": lambda: pb.freq_shift(z, 1 * u.s),
            "neg_step": lambda: z[::-1],
            "bad_rate": lambda: type(z).like(z, sample_rate=-1 * u.Hz),
            "cdd_nonbaseband": lambda: pb.coherent_dedispersion(z, pb.DM(1.0), ref_freq=1 * u.GHz),
            "matmul": lambda: z @ z.data.T,
            "reduce": lambda: np.add.reduce(z),
        }
        try:
            r = calls[kind]()
            self.add(r, kind) if r is not None else None
            self.st.label("bad_returned_" + kind)
        except Exception:
            self.st.label("bad_raised_" + kind)


@st.composite
def op_args(draw, name, info):
    return C.OPS[name].args(draw, info)


class PoolMachine(HistoryMachine):
    model_cls = Pool

    @initialize(spec=G.signal_spec(nmin=2, nmax=24, nchan_max=4, max_trailing=1, dtypes=["f4", "f8", "c8", "c16"], positive_band=True,
                                   data_kinds=("noise",), sr=G.freq_q(0, 8), ratio_lo=1e-6),
                layout=st.sampled_from(["contiguous", "strided_time", "strided_last", "fortran", "readonly"]))
    def first(self, spec, layout):
        self.do(["new", spec, layout])

    @precondition(lambda self: len(self.model.sigs) < 4)
    @rule(spec=G.signal_spec(nmin=1, nmax=16, nchan_max=3, max_trailing=1, dtypes=["f4", "f8", "c8", "c16"], positive_band=True, data_kinds=("noise",),
                             sr=G.freq_q(0, 8), ratio_lo=1e-6),
          layout=st.sampled_from(["contiguous", "strided_time", "strided_last", "readonly"]))
    def new(self, spec, layout):
        self.do(["new", spec, layout])

    @rule(data=st.data(), idx=st.integers(0, 20))
    def op(self, data, idx):
        z = self.model.pick(idx)
        info = C.info(z)
        info["positive_band"] = info["radio"] and C.positive_band(z)
        names = [n for n in C.applicable(info) if n not in ("compute", "persist")] + (["compute"] if idx % 7 == 0 else [])
        name = data.draw(st.sampled_from(sorted(names)))
        args = data.draw(op_args(name, info))
        self.do(["op", idx, name, args])

    @rule(idx=st.integers(0, 20))
    def reuse(self, idx):
        self.do(["reuse", idx])

    @rule(idx=st.integers(0, 20), k=st.integers(0, 30), dask_too=st.booleans())
    def dicts(self, idx, k, dask_too):
        self.do(["dicts", idx, k, dask_too])

    @rule(idx=st.integers(0, 20), kind=st.sampled_from(["nan_to_num", "nan_to_num", "array", "array_copy_true", "copy", "array_dtype_same", "astype_like", "sort"]))
    def numpy_copy(self, idx, kind):
        self.do(["numpy_copy", idx, kind])

    @rule(idx=st.integers(0, 20), k=st.integers(0, 30), metas=st.tuples(st.integers(0, 4), st.integers(0, 4)), drop=st.booleans())
    def join(self, idx, k, metas, drop):
        self.do(["join", idx, k, list(metas), drop])

    @rule(idx=st.integers(0, 20), kind=st.sampled_from(["snippet_past_end", "snippet_negative", "concat_gap", "concat_types", "tshift_dims",
                                                       "fshift_nonbaseband", "neg_step", "bad_rate", "cdd_nonbaseband", "matmul", "reduce"]))
    def bad(self, idx, kind):
        self.do(["bad", idx, kind])


# -- single calls (every catalogue operation at a steady rate, incl. tiny shifts) -------------------------------------


@st.composite
def single_case(draw):
    name = draw(st.sampled_from(sorted(n for n in C.OPS if n not in ("persist",))))
    from .c09 import OP_CLASSES

    op = C.OPS[name]
    spec = draw(G.signal_spec(classes=OP_CLASSES.get(name, G.CLASSES), nmin=max(op.needs_len, 1), nmax=24, nchan_max=4, max_trailing=1,
                              dtypes=["f4", "f8", "c8", "c16"], positive_band=True, data_kinds=("noise",), sr=G.freq_q(0, 8), ratio_lo=1e-6))
    if name == "concatenate_freq" and spec["sshape"][0] < 2:
        spec["sshape"][0] = 3
    if name == "trailing_index":
        base = 2 if spec["cls"] in ("FullStokesSignal", "DualPolarizationSignal") else (1 if spec["cls"] != "Signal" else 0)
        if len(spec["sshape"]) <= base:
            spec["sshape"] = spec["sshape"] + [2]
    info = {"cls": spec["cls"], "n": spec["n"], "sshape": spec["sshape"], "dtype": str(np.dtype(G.DT[spec["dtype"]])), "start": spec["t0"] is not None,
            "radio": spec["cls"] != "Signal", "baseband": spec["cls"] in G.BASEBAND, "positive_band": True}
    if draw(st.integers(0, 3)) == 0:
        spec["nonfinite"] = {"at": [draw(st.integers(0, 10**6)) for _ in range(draw(st.integers(1, 3)))]}
    return {"sig": spec, "layout": draw(st.sampled_from(["contiguous", "strided_time", "strided_last"])), "op": name, "args": op.args(draw, info),
            "twice": draw(st.booleans())}


def run_single(case, stt):
    p = Pool(stt)
    p.apply(["new", case["sig"], case["layout"]])
    p.apply(["op", 0, case["op"], case["args"]])
    if case["twice"]:
        p.apply(["op", 0, case["op"], case["args"]])
        p.apply(["reuse", 0])
    a = case["args"]
    tiny = isinstance(a, dict) and (any(0 < abs(v) <= 1e-8 for v in np.ravel(np.array(a.get("vals", 0.0), dtype=float))) or a.get("tiny", 0) > 0)
    stt.nt(case["twice"] or tiny)
    if tiny:
        stt.label("tiny_shift")


SUBS = [
    MachineSub("pool_histories", PoolMachine,
               "rule-based machine: a pool of signals on writable NumPy buffers (contiguous, strided along time / last axis, Fortran order) and of "
               "array/Quantity/DM/chirp arguments; rules apply any applicable catalogue operation to any pool member, re-use an earlier argument "
               "object, concatenate pieces that carry different meta dicts, or make a call that raises; results (often views of inputs) join the pool; every member is compared with its snapshot after "
               "every step; non-trivial = some member was the input of >= 2 operations", quick=700, thorough=8000, steps_quick=14, steps_thorough=30,
               pieces_quick=6),
    Sub("single_calls", single_case(), run_single,
        "every catalogue operation at a uniform rate on one fresh signal (three memory layouts), optionally twice with the same arguments "
        "and with a re-used Quantity argument; shifts include |s| <= 1e-8; non-trivial = called twice or a tiny shift", quick=2500, thorough=50000,
        pieces_quick=4),
]

"""C17 -- elementwise NumPy operations on signals equal the same operations on their data."""

import operator
import warnings

import numpy as np
import astropy.units as u
from hypothesis import strategies as st

from ..core import Sub, EnumSub, check, lib, must_raise, Violation
from .. import oracle as O, gen as G
from ..contract import contract, bits_equal
from .c16 import attrs, same_attrs

ASSUMPTIONS = [
    "reference = the same ufunc / operator applied to the underlying arrays (.data) by NumPy itself; results compared bit for bit (NaNs included)",
    "classes with a dtype contract are only combined with ufuncs whose result dtype the class admits (the property's quantifier)",
    "Quantity operands are dimensionless (unscaled or percent): the expectation is what astropy returns for the same ufunc on the raw array "
    "(a Quantity: same unit, same bits); `quantity == signal` / `!=` is the open finding K4 (astropy's Quantity.__eq__ never defers to the other operand)",
]
EXHAUSTIVE = {"quick": True, "thorough": True}

UFUNCS = sorted({f for f in vars(np).values() if isinstance(f, np.ufunc) and f.signature is None and f.nin <= 2 and f.nout <= 2},
                key=lambda f: f.__name__)
DTS = ["b1", "i8", "u1", "f4", "f8", "c8", "c16", ">f8", ">c8"]  # (the last two: byte-swapped, i.e. non-native, data as read from big-endian files)
G.DT.setdefault("i2", np.int16)
G.DT.setdefault(">f8", np.dtype(">f8"))
G.DT.setdefault(">c8", np.dtype(">c8"))
ARR1 = ["s", "s_dask", "out_partial", "where_sig"]
ARR2 = ["ss", "sa", "as", "sk", "ks", "sq", "qs", "out", "out_tuple", "ss_dask", "s0d", "bcast", "out_partial", "out_partial_as", "where_sig"]
SUBCLASS = {"Signal": "RadioSignal", "RadioSignal": "IntensitySignal", "IntensitySignal": "FullStokesSignal", "BasebandSignal": "DualPolarizationSignal"}


def partial_out(pb, f, cls, args, first, outs, what):
    """two-output ufunc with ONE of its outputs supplied -- a signal of a strict subclass of the first operand's class (NumPy then dispatches
    to the subclass instance): the supplied output is written and returned as it is, the other one is wrapped like the first signal operand"""
    sub = SUBCLASS.get(cls)
    for pos in (0, 1):
        e = outs[pos]
        tcls = sub if (sub and admits(sub, e.dtype) and e.ndim >= {"RadioSignal": 2, "IntensitySignal": 2, "FullStokesSignal": 3,
                                                                    "DualPolarizationSignal": 3}[sub]
                       and (sub not in ("FullStokesSignal",) or e.shape[2:3] == (4,)) and (sub != "DualPolarizationSignal" or e.shape[2:3] == (2,))) else cls
        t = mk_sig(pb, tcls, np.zeros_like(e), 2)
        before, buf = attrs(t), t.data
        out = (t, None) if pos == 0 else (None, t)
        with lib(what + " out=%s" % (("given", None) if pos == 0 else (None, "given"),)):
            r = f(*args, out=out)
        check(isinstance(r, tuple) and len(r) == 2, "{}: two-output ufunc with a partial out= returned {}", what, type(r).__name__)
        check(r[pos] is t and t.data is buf and same_bits(t.data, e) and same_attrs(attrs(t), before), "{}: the supplied output (position {}) was not "
              "written into and returned with its own metadata", what, pos)
        check_result(pb, r[1 - pos], outs[1 - pos], first, what + " [output %d, not supplied; output %d is a %s]" % (1 - pos, pos, tcls))
    return "ok"



def where_signal(pb, f, cls, args, raw, outs, what):
    """where= given as a (boolean) SIGNAL with out= a signal: the mask is an operand like the others -- its data select the elements written"""
    mask = (np.arange(raw[0].size).reshape(raw[0].shape) % 3) != 1
    msig = pb.Signal(mask.copy(), sample_rate=1 * u.Hz)
    e = np.full_like(outs[0], 7)
    f(*raw, where=mask, out=e)
    t = mk_sig(pb, cls, np.full_like(outs[0], 7), 2)
    before, buf = attrs(t), t.data
    with lib(what + " where=<Signal of bool>, out=<signal>"):
        r = f(*args, where=msig, out=t)
    check(r is t and t.data is buf and same_attrs(attrs(t), before), "{}: where=signal, out=signal did not return the given signal with its own metadata", what)
    check(same_bits(t.data, e), "{}: where=<signal> did not select the elements its data select", what)
    check(same_bits(msig.data, mask), "{}: the mask signal was modified", what)
    return "ok"


def base_data(dt, shape=(4, 3), salt=0):
    n = int(np.prod(shape))
    v = (np.arange(n) * 7 + 3 + salt * 5) % 11 + 1  # 1..11
    x = v.astype(np.float64).reshape(shape)
    d = G.DT[dt]
    if d == np.bool_:
        return (v % 2 == 0).reshape(shape)
    if np.issubdtype(d, np.complexfloating):
        return (x / 4 + 1j * (x[::-1] / 8 - 0.5)).astype(d)
    if np.issubdtype(d, np.floating):
        return (x / 4 - (0.75 if salt % 2 else 0)).astype(d)
    return x.astype(d)


SUBCLASS_MODE = {"on": False}  # (set per case by the sub-checks that draw it: signals are then instances of a user-defined subclass)


def mk_sig(pb, cls, data, which=0, dask=False):
    kw = [dict(sample_rate=2 * u.kHz, start_time=G.mk_time({"mjd": 58000, "frac": 0.25}), meta={"who": "first"}),
          dict(sample_rate=5 * u.Hz, start_time=None, meta={"who": "second"}),
          dict(sample_rate=7 * u.MHz, start_time=G.mk_time({"mjd": 59000, "frac": 0.5}), meta=None)][which]
    if cls != "Signal":
        kw.update(center_freq=[1 * u.GHz, 300 * u.MHz, 2 * u.kHz][which], freq_align=["center", "bottom", "top"][which])
        if cls not in G.BASEBAND:
            kw["chan_bw"] = [1 * u.MHz, 3 * u.kHz, 2 * u.Hz][which]
    if cls == "DualPolarizationSignal":
        kw["pol_type"] = ["linear", "circular", "linear"][which]
    if dask:
        import dask.array as da

        data = da.from_array(data, chunks=(2,) + data.shape[1:])
    klass = getattr(pb, cls)
    if SUBCLASS_MODE["on"]:
        klass = G.user_subclass(klass, SUBCLASS_MODE["on"])
    return klass(data, **kw)


def admits(cls, dtype):
    from ..contract import REQ_DTYPES

    req = REQ_DTYPES[cls[6:] if cls.startswith("MyCtor") else cls[2:] if cls.startswith("My") else cls]  # (a user subclass "My<Class>" has its base class's dtype contract)
    return req is None or np.dtype(dtype) in [np.dtype(r) for r in req]


def values(x):
    import dask.array as da

    if isinstance(x, da.Array):
        x = x.compute(scheduler="synchronous")
    return x if isinstance(x, u.Quantity) else np.asarray(x)


def same_bits(a, b):
    if isinstance(a, u.Quantity) or isinstance(b, u.Quantity):
        # a Quantity operand makes astropy produce a Quantity: same unit, same bits
        if not (isinstance(a, u.Quantity) and isinstance(b, u.Quantity) and a.unit == b.unit):
            return False
        a, b = a.value, b.value
    a, b = np.asarray(a), np.asarray(b)
    return a.shape == b.shape and a.dtype == b.dtype and a.tobytes() == b.tobytes()


def check_result(pb, r, exp, ref_sig, what):
    check(type(r) is type(ref_sig), "{}: result is {}, first signal operand is {}", what, type(r).__name__, type(ref_sig).__name__)
    contract(r, what)
    check(same_attrs(attrs(r), attrs(ref_sig)), "{}: metadata {} is not the first signal operand's {}", what, attrs(r), attrs(ref_sig))
    v = values(r.data)
    check(same_bits(v, exp), "{}: values/dtype differ from the ufunc on the underlying arrays ({} {} vs {} {})", what, v.dtype, v.shape,
          exp.dtype, exp.shape)


def one_ufunc_case(pb, f, dt, arr, cls, stt=None):
    """-> 'ok' | 'skip:<why>' ; raises Violation"""
    name = f.__name__
    what = "%s[%s,%s,%s]" % (name, dt, arr, cls)
    x, y = base_data(dt), base_data(dt, salt=1)
    dask = arr.endswith("_dask")
    with warnings.catch_warnings(), np.errstate(all="ignore"):
        warnings.simplefilter("ignore")
        if f.nin == 1:
            try:
                exp = f(x)
            except TypeError:
                return "skip:no_loop"
            outs = exp if isinstance(exp, tuple) else (exp,)
            if not all(admits(cls, o.dtype) for o in outs) or not admits(cls, x.dtype):
                return "skip:class_dtype"
            a = mk_sig(pb, cls, x.copy(), 0, dask)
            if arr == "out_partial":
                return partial_out(pb, f, cls, (a,), a, outs, what) if f.nout == 2 else "skip:single_output"
            if arr == "where_sig":
                return where_signal(pb, f, cls, (a,), (x,), outs, what) if f.nout == 1 else "skip:two_outputs"
            with lib(what):
                r = f(a)
            rs = r if isinstance(r, tuple) else (r,)
            check(len(rs) == f.nout and (f.nout == 1 or isinstance(r, tuple)), "{}: {} outputs returned as {}", what, f.nout, type(r).__name__)
            for ri, ei in zip(rs, outs):
                check_result(pb, ri, ei, a, what)
            check(same_bits(values(a.data), x), "{}: operand modified", what)
            return "ok"
        # two inputs
        k = {"b1": True, "i8": 3, "u1": 3, "f4": np.float32(1.5), "f8": 2.5, "c8": np.complex64(1 + 2j), "c16": 2 - 1j, ">f8": 2.5,
             ">c8": np.complex64(1 + 2j)}[dt]
        q = None
        if arr in ("sq", "qs"):
            if dt not in ("f4", "f8"):
                return "skip:quantity_dtype"
            q = (150.0 * u.percent) if name in ("add", "subtract", "maximum", "minimum", "greater", "less", "equal", "not_equal", "greater_equal",
                                                "less_equal", "fmax", "fmin", "hypot", "arctan2", "copysign", "nextafter", "heaviside",
                                                "logaddexp", "logaddexp2", "multiply", "divide", "true_divide", "floor_divide", "remainder",
                                                "mod", "fmod", "power", "float_power") else None
            if q is None:
                return "skip:quantity_ufunc"
        ops = {"ss": (x, y), "ss_dask": (x, y), "sa": (x, y), "as": (y, x), "sk": (x, k), "ks": (k, x), "sq": (x, None), "qs": (None, x),
               "out": (x, y), "out_tuple": (x, y), "s0d": (x, np.array(k)), "bcast": (x, y[:1]), "out_partial": (x, y), "out_partial_as": (y, x), "where_sig": (x, y)}[arr]
        raw = tuple(q if o is None else o for o in ops)
        try:
            exp = f(*raw)
        except (TypeError, u.UnitsError):
            return "skip:no_loop"
        outs = exp if isinstance(exp, tuple) else (exp,)
        if not all(admits(cls, o.dtype) for o in outs) or not admits(cls, x.dtype):
            return "skip:class_dtype"
        if q is not None and cls != "Signal" and cls != "RadioSignal":
            return "skip:quantity_class"
        a = mk_sig(pb, cls, x.copy(), 0, dask)
        b = mk_sig(pb, cls, y.copy(), 1, dask)
        if arr in ("ss", "ss_dask"):
            args, first = (a, b), a
        elif arr == "sa":
            args, first = (a, y.copy()), a
        elif arr == "as":
            args, first = (y.copy(), a), a
        elif arr == "sk":
            args, first = (a, k), a
        elif arr == "ks":
            args, first = (k, a), a
        elif arr == "sq":
            args, first = (a, q), a
        elif arr == "qs":
            args, first = (q, a), a
        elif arr == "s0d":
            args, first = (a, np.array(k)), a
        elif arr == "bcast":
            args, first = (a, y[:1].copy()), a
        else:
            args, first = (a, b), a
        if arr == "out_partial":
            return partial_out(pb, f, cls, (a, b), a, outs, what) if f.nout == 2 else "skip:single_output"
        if arr == "where_sig":
            return where_signal(pb, f, cls, (a, b), (x, y), outs, what) if f.nout == 1 else "skip:two_outputs"
        if arr == "out_partial_as":
            # ... and with a plain array as the leading operand: the only signal among the inputs is still the first signal operand
            return partial_out(pb, f, cls, (y.copy(), a), a, outs, what) if f.nout == 2 else "skip:single_output"
        if arr in ("out", "out_tuple"):
            tg = [mk_sig(pb, cls, np.zeros_like(o), 2) for o in outs]
            before = [attrs(t) for t in tg]
            bufs = [t.data for t in tg]
            with lib(what):
                if arr == "out" and f.nout == 1:
                    r = f(a, b, out=tg[0])
                else:
                    r = f(a, b, out=tuple(tg))
            rs = r if isinstance(r, tuple) else (r,)
            check(len(rs) == f.nout, "{}: {} outputs", what, len(rs))
            for ri, t, e, bf, buf in zip(rs, tg, outs, before, bufs):
                check(ri is t, "{}: out= did not return the given signal object", what)
                check(t.data is buf, "{}: out= re-bound the signal's data instead of writing into it", what)
                check(same_bits(t.data, e), "{}: values written into out= differ from the ufunc on the arrays", what)
                check(same_attrs(attrs(t), bf), "{}: out= changed the target's metadata", what)
            return "ok"
        with lib(what):
            r = f(*args)
        rs = r if isinstance(r, tuple) else (r,)
        check(len(rs) == f.nout and (f.nout == 1 or isinstance(r, tuple)), "{}: {} outputs returned as {}", what, f.nout, type(r).__name__)
        for ri, ei in zip(rs, outs):
            check_result(pb, ri, ei, first, what)
        check(same_bits(values(a.data), x) and same_bits(values(b.data), y), "{}: an operand was modified", what)
        return "ok"


def enum_ufuncs(tier, piece, npieces, stt, seed):
    import pulsarbat as pb

    combos = []
    for f in UFUNCS:
        for dt in DTS:
            for arr in (ARR1 if f.nin == 1 else ARR2):
                for cls in ("Signal", "RadioSignal", "IntensitySignal", "BasebandSignal"):
                    if arr.endswith("_dask") and (dt not in ("f8", "c16") or cls not in ("Signal", "BasebandSignal", "IntensitySignal")):
                        continue
                    if cls in ("IntensitySignal", "BasebandSignal") and arr in ("s0d", "bcast", "out_tuple", "ks"):
                        continue
                    combos.append((f, dt, arr, cls))
    mine = combos[piece::npieces]
    ev = nt = 0
    for f, dt, arr, cls in mine:
        case = {"ufunc": f.__name__, "dtype": dt, "arr": arr, "cls": cls}
        stt._cur = case
        try:
            res = one_ufunc_case(pb, f, dt, arr, cls)
        except Violation as e:
            stt.failure = (case, str(e))
            raise
        stt.label(res if res.startswith("skip") else "checked")
        if res == "ok":
            ev += 1
            if (f.nin == 2 and arr in ("as", "ks", "qs")) or arr in ("out", "out_tuple") or f.nout == 2:
                nt += 1
            stt.label("ufunc_" + f.__name__)
    stt.bulk(ev, nt, samples=[{"ufunc": f.__name__, "dtype": dt, "arr": arr, "cls": cls} for f, dt, arr, cls in mine[:2]])


def replay_ufunc(case, stt):
    import pulsarbat as pb

    f = getattr(np, case["ufunc"])
    one_ufunc_case(pb, f, case["dtype"], case["arr"], case["cls"])


# -- long arrays (block-wise implementations) ----------------------------------------------------------------------------


@st.composite
def large_case(draw):
    return {"ufunc": draw(st.sampled_from(["add", "multiply", "absolute", "conjugate", "exp", "less", "divmod", "modf", "negative", "maximum", "square"])),
            "dtype": draw(st.sampled_from(["f4", "f8", "c8", "c16", "i8"])), "n": draw(st.sampled_from([65535, 65536, 65537, 70001, 131073])),
            "arr": draw(st.sampled_from(["s", "ss", "sa", "as", "out", "inplace", "dask_near_dup", "dask_near_dup"])),
            "cls": draw(st.sampled_from(["Signal", "RadioSignal", "BasebandSignal", "IntensitySignal"])),
            "edits": draw(st.lists(st.integers(0, 2 * 65535 - 1), min_size=1, max_size=3, unique=True))}


def run_large(case, stt):
    import pulsarbat as pb

    f = getattr(np, case["ufunc"])
    dt, n, cls = case["dtype"], case["n"], case["cls"]
    x, y = base_data(dt, (n, 2), 0), base_data(dt, (n, 2), 1)
    with warnings.catch_warnings(), np.errstate(all="ignore"):
        warnings.simplefilter("ignore")
        try:
            exp = f(x) if f.nin == 1 else f(x, y)
        except TypeError:
            stt.label("skip_no_loop")
            return
        outs = exp if isinstance(exp, tuple) else (exp,)
        if not all(admits(cls, o.dtype) for o in outs) or not admits(cls, x.dtype):
            stt.label("skip_class_dtype")
            return
        a, b = mk_sig(pb, cls, x.copy(), 0), mk_sig(pb, cls, y.copy(), 1)
        arr = (case["arr"] if case["arr"] != "s" else "ss") if f.nin == 2 else "s"
        with lib("%s on %d samples [%s]" % (case["ufunc"], n, arr)):
            if arr == "s":
                r = f(a)
            elif arr == "ss":
                r = f(a, b)
            elif arr == "sa":
                r = f(a, y)
            elif arr == "as":
                r = f(x, b)
                a = b
            elif arr == "dask_near_dup":
                # a Dask-backed signal combined with two LONG plain arrays that differ in only a few elements, both results in one graph
                import dask

                if f.nout != 1:
                    stt.label("skip_near_dup_multi_output")
                    return
                y2 = y.copy()
                for e in case.get("edits", [1]):
                    y2.reshape(-1)[e] = y2.reshape(-1)[e] + y2.dtype.type(1)
                import dask.array as da

                ad = mk_sig(pb, cls, da.from_array(x.copy(), chunks=(n // 3 + 1, 2)), 0)
                r1, r2 = f(ad, y), f(ad, y2)
                o1, o2 = dask.compute(r1.data, r2.data, scheduler="synchronous")
                check(same_bits(o1, f(x, y)) and same_bits(o2, f(x, y2)), "{} of a Dask-backed signal with two arrays of {} samples differing in {} "
                      "element(s), computed together: values differ from the ufunc on the arrays", case["ufunc"], n, len(case.get("edits", [1])))
                stt.nt()
                stt.label("dask_near_duplicate_operands")
                return
            elif arr == "out":
                tg = tuple(mk_sig(pb, cls, np.zeros_like(o), 2) for o in outs)
                r = f(a, b, out=tg if len(tg) > 1 else tg[0])
                a = None
            else:
                if f.nout != 1 or outs[0].dtype != x.dtype:
                    stt.label("skip_inplace")
                    return
                r = f(a, b, out=a)
        rs = r if isinstance(r, tuple) else (r,)
        for ri, ei in zip(rs, outs):
            if a is not None and arr != "inplace":
                check_result(pb, ri, ei, a, "%s on %d samples" % (case["ufunc"], n))
            else:
                check(same_bits(ri.data, ei), "{} on {} samples [{}]: values differ from the ufunc on the arrays", case["ufunc"], n, arr)
    stt.nt()
    stt.label("ufunc_" + case["ufunc"])


# -- operators, in-place chains --------------------------------------------------------------------------------------

UF = {"+": np.add, "-": np.subtract, "*": np.multiply, "/": np.true_divide, "//": np.floor_divide, "%": np.remainder, "**": np.power,
      "&": np.bitwise_and, "|": np.bitwise_or, "^": np.bitwise_xor, "<<": np.left_shift, ">>": np.right_shift, "<": np.less, "<=": np.less_equal,
      "==": np.equal, "!=": np.not_equal, ">": np.greater, ">=": np.greater_equal, "neg": np.negative, "pos": np.positive, "abs": np.absolute,
      "inv": np.invert}
BINOPS = {"+": operator.add, "-": operator.sub, "*": operator.mul, "/": operator.truediv, "//": operator.floordiv, "%": operator.mod,
          "**": operator.pow, "&": operator.and_, "|": operator.or_, "^": operator.xor, "<<": operator.lshift, ">>": operator.rshift,
          "<": operator.lt, "<=": operator.le, "==": operator.eq, "!=": operator.ne, ">": operator.gt, ">=": operator.ge}
UNOPS = {"neg": operator.neg, "pos": operator.pos, "abs": operator.abs, "inv": operator.invert}
IOPS = {"+=": operator.iadd, "-=": operator.isub, "*=": operator.imul, "/=": operator.itruediv, "//=": operator.ifloordiv, "%=": operator.imod,
        "**=": operator.ipow, "&=": operator.iand, "|=": operator.ior, "^=": operator.ixor, "<<=": operator.ilshift, ">>=": operator.irshift}


@st.composite
def op_case(draw):
    dt = draw(st.sampled_from(DTS))
    cls = draw(st.sampled_from(["Signal", "RadioSignal", "IntensitySignal", "BasebandSignal", "DualPolarizationSignal", "FullStokesSignal"]))
    shape = {"DualPolarizationSignal": (3, 2, 2), "FullStokesSignal": (3, 2, 4)}.get(cls, draw(st.sampled_from([(4, 3), (3, 2, 2), (5, 1)])))
    if cls == "Signal" and draw(st.booleans()):
        shape = (5,)
    other = draw(st.sampled_from(["sig", "sig_other_class", "arr", "arr_bcast", "scalar", "npscalar", "npscalar_wide", "quantity"]))
    return {"dtype": dt, "cls": cls, "shape": list(shape), "op": draw(st.sampled_from(sorted(BINOPS) + sorted(UNOPS))), "other": other,
            "order": draw(st.sampled_from(["sig_first", "sig_second"])), "salt": draw(st.integers(0, 50)), "dask": draw(st.integers(0, 4)) == 0,
            "user_subclass": draw(st.sampled_from([False] * 6 + [True, "ctor"]))}


def run_op(case, stt):
    SUBCLASS_MODE["on"] = case.get("user_subclass") or False
    try:
        if SUBCLASS_MODE["on"]:
            stt.label("user_subclass_operands")
        return _run_op(case, stt)
    finally:
        SUBCLASS_MODE["on"] = False


def _run_op(case, stt):
    import pulsarbat as pb

    dt, cls, shape = case["dtype"], case["cls"], tuple(case["shape"])
    x, y = base_data(dt, shape, case["salt"]), base_data(dt, shape, case["salt"] + 1)
    if not admits(cls, x.dtype):
        stt.label("skip_class_dtype")
        return
    opn = case["op"]
    with warnings.catch_warnings(), np.errstate(all="ignore"):
        warnings.simplefilter("ignore")
        a = mk_sig(pb, cls, x.copy(), 0, case["dask"])
        if opn in UNOPS:
            try:
                exp = UF[opn](x)
            except TypeError:
                must_raise("unary %s on %s" % (opn, dt), lambda: UNOPS[opn](a), (TypeError,))
                stt.label("no_loop_refused")
                return
            if not admits(cls, exp.dtype):
                stt.label("skip_class_dtype")
                return
            with lib("unary " + opn):
                r = UNOPS[opn](a)
            check_result(pb, r, exp, a, "unary " + opn)
            stt.nt(False)
            stt.label("unary")
            return
        oth = case["other"]
        first = a
        if oth == "sig":
            b_raw, b = y, mk_sig(pb, cls, y.copy(), 1, case["dask"])
        elif oth == "sig_other_class":
            ocls = "Signal" if cls != "Signal" else "RadioSignal"
            if len(shape) < 2:
                ocls = "Signal"
            b_raw, b = y, mk_sig(pb, ocls, y.copy(), 1)
        elif oth == "arr":
            b_raw = b = y.copy()
        elif oth == "arr_bcast":
            b_raw = b = y[:1].copy()
        elif oth == "scalar":
            b_raw = b = {"b1": True, "i8": 3, "u1": 2, "f4": 1.5, "f8": 2.5, "c8": 1 + 2j, "c16": 2 - 1j, ">f8": 2.5, ">c8": 1 + 2j}[dt]
        elif oth == "npscalar":
            b_raw = b = x.dtype.type(3)
        elif oth == "npscalar_wide":
            # a NumPy scalar of the widest type of its kind: NumPy promotes the result (unlike a Python scalar)
            b_raw = b = {"b1": np.int64(3), "i8": np.int64(3), "u1": np.int64(300), "f4": np.float64(2.5), "f8": np.float64(2.5),
                         "c8": np.complex128(1 + 2j), "c16": np.complex128(1 + 2j), ">f8": np.float64(2.5), ">c8": np.complex128(1 + 2j)}[dt]
        else:
            if dt not in ("f4", "f8") or opn in ("&", "|", "^", "<<", ">>"):
                stt.label("skip_quantity")
                return
            b = 250.0 * u.percent if opn in ("+", "-", "<", "<=", "==", "!=", ">", ">=") else 2.5 * u.dimensionless_unscaled
            b_raw = b
            if cls not in ("Signal", "RadioSignal"):
                stt.label("skip_quantity")
                return
        sig_first = case["order"] == "sig_first"
        l_raw, r_raw = (x, b_raw) if sig_first else (b_raw, x)
        l, rr = (a, b) if sig_first else (b, a)
        if oth in ("sig", "sig_other_class") and not sig_first:
            first = b
        if oth == "sig_other_class" and opn in ("<", "<=", "==", "!=", ">", ">=") and type(l) is not type(rr) and isinstance(rr, type(l)):
            # Python itself calls the reflected comparison of a right operand that is a subclass instance first, so the ufunc
            # receives the operands in swapped order: "first signal operand" is not observable to the library here
            stt.label("skip_reflected_subclass_comparison")
            return
        try:
            exp = UF[opn](l_raw, r_raw)
        except (TypeError, u.UnitsError):
            must_raise("%s without a loop for %s" % (opn, dt), lambda: BINOPS[opn](l, rr), (TypeError,))
            stt.label("no_loop_refused")
            return
        if not admits(type(first).__name__, exp.dtype):
            stt.label("skip_class_dtype")
            return
        with lib("operator " + opn):
            r = BINOPS[opn](l, rr)
        check_result(pb, r, exp, first, "%s %s %s" % ("sig" if sig_first else oth, opn, oth if sig_first else "sig"))
        if not case["dask"] and oth != "quantity":
            # the caller's floating-point error state applies to the operation on signals exactly as to the arrays: what raises there raises here
            with np.errstate(all="raise"):
                try:
                    UF[opn](l_raw, r_raw)
                    fpe = False
                except FloatingPointError:
                    fpe = True
                if fpe:
                    must_raise("%s under np.errstate(all='raise') where the arrays raise FloatingPointError" % opn, lambda: BINOPS[opn](l, rr),
                               (FloatingPointError,))
                    stt.label("errstate_raise_propagates")
                else:
                    with lib("operator %s under np.errstate(all='raise')" % opn):
                        r2 = BINOPS[opn](l, rr)
                    check(same_bits(values(r2.data), exp), "{} under np.errstate(all='raise') gives other values", opn)
        stt.nt((not sig_first) or oth in ("sig_other_class", "quantity"))
        stt.label("other_" + oth)
        stt.label("op_" + opn)
        stt.label(cls)


@st.composite
def chain_case(draw):
    dt = draw(st.sampled_from(["i8", "f4", "f8", "c8", "c16", "u1", ">f8", ">c8"]))
    cls = draw(st.sampled_from(["Signal", "RadioSignal", "IntensitySignal", "BasebandSignal"]))
    steps = draw(st.lists(st.tuples(st.sampled_from(sorted(IOPS)), st.sampled_from(["scalar", "fscalar", "cscalar", "arr", "sig", "arr_f8", "view"])),
                          min_size=1, max_size=5))
    return {"dtype": dt, "cls": cls, "steps": [list(s) for s in steps], "salt": draw(st.integers(0, 50)), "view": draw(st.booleans()),
            "dask": draw(st.integers(0, 2)) == 0, "observe": draw(st.booleans())}


def run_chain(case, stt):
    import pulsarbat as pb

    dt, cls = case["dtype"], case["cls"]
    x = base_data(dt, (6, 3), case["salt"])
    if not admits(cls, x.dtype):
        stt.label("skip_class_dtype")
        return
    buf = x.copy()
    dask_backed = bool(case.get("dask"))
    a = mk_sig(pb, cls, buf, 0, dask_backed)
    head = a[2:5] if (case["view"] and not dask_backed) else None  # a signal viewing the same buffer, taken before the in-place ops
    if case.get("observe"):
        check(same_bits(np.asarray(a), x), "np.asarray(signal) is not its data")
    model = x.copy()
    meta0 = attrs(a)
    refused = 0
    with warnings.catch_warnings(), np.errstate(all="ignore"):
        warnings.simplefilter("ignore")
        for opn, ok in case["steps"]:
            other_raw = {"scalar": 2, "fscalar": 1.5, "cscalar": 1j, "arr": base_data(dt, (6, 3), 7), "arr_f8": base_data("f8", (6, 3), 3),
                         "sig": base_data(dt, (6, 3), 9), "view": None}[ok]
            if ok == "view":
                other_raw = model[::-1].copy()
                other = other_raw
            elif ok == "sig":
                other = mk_sig(pb, cls, other_raw.copy(), 1)
            else:
                other = other_raw
            trial = model.copy()
            try:
                # one reference for both containers: NumPy's in-place result on the array, NumPy's same-kind casting rule included.  (A plain Dask
                # array rebinds the graph of `out` whatever the result's dtype; a signal that did the same would end up holding data its class
                # does not admit -- an IntensitySignal of complex numbers after `*= 1j` -- or of another dtype than the one it was given)
                UF[opn[:-1]](trial, other_raw, out=trial)
                ok_np = True
            except (TypeError, ValueError) as e:
                ok_np, exc = False, type(e)
            if not ok_np and dask_backed and issubclass(exc, ValueError):
                # a value-dependent refusal (integer to a negative power) can only come when the graph is computed: the lazy signal accepts
                # the operation and its data raise on compute, exactly like the plain Dask array; the chain ends here
                def lazy_then_compute():
                    IOPS[opn](a, other)
                    np.asarray(a.data)

                must_raise("in-place %s on Dask data that NumPy refuses by value, raised when computed" % opn, lazy_then_compute, (ValueError,))
                refused += 1
                break
            if not ok_np:
                keep = values(a.data).copy()
                must_raise("in-place %s that NumPy refuses for the data (%s with %s)" % (opn, dt, ok), lambda: IOPS[opn](a, other),
                           (TypeError,) if issubclass(exc, TypeError) else (ValueError,))
                # a TypeError is raised before anything is written; a ValueError (integer to a negative power) comes mid-loop and
                # NumPy leaves the same partial result in a plain array
                check(same_bits(values(a.data), keep if issubclass(exc, TypeError) else trial), "a refused in-place {} left the signal in another state "
                      "than NumPy leaves the plain array", opn)
                model = model if issubclass(exc, TypeError) else trial
                refused += 1
                continue
            model = trial
            obj = a
            with lib("in-place " + opn):
                a = IOPS[opn](a, other)
            check(a is obj, "in-place {} re-bound the signal object", opn)
            if not dask_backed:
                check(a.data is buf, "in-place {} re-bound the signal's data instead of writing into its buffer", opn)
            check(same_bits(values(a.data), model), "after in-place {} with {}: values/dtype differ from NumPy's in-place result on the array ({} vs {})", opn,
                  ok, a.data.dtype, model.dtype)
            if case.get("observe"):
                # converting the signal between the steps must show the current values (nothing stale)
                check(same_bits(np.asarray(a), model), "np.asarray(signal) after in-place {} does not show the updated data", opn)
                check(same_bits(np.array(a, dtype=np.complex128), model.astype(np.complex128)), "np.array(signal, dtype) after in-place {} is stale", opn)
            check(same_attrs(attrs(a), meta0), "in-place {} changed the signal's metadata", opn)
            if head is not None:
                check(same_bits(head.data, model[2:5]), "a signal viewing the same buffer does not see the in-place {}", opn)
    stt.nt(len(case["steps"]) >= 2)
    stt.label("refused_steps", refused)
    stt.label("dask" if dask_backed else "numpy")
    stt.label(cls)


# -- np.asarray / np.array ----------------------------------------------------------------------------------------------


@st.composite
def conv_case(draw):
    return {"dtype": draw(st.sampled_from(DTS)), "cls": draw(st.sampled_from(["Signal", "RadioSignal", "BasebandSignal", "IntensitySignal"])),
            "to": draw(st.sampled_from([None, "f4", "f8", "c8", "c16", "i8"])), "fn": draw(st.sampled_from(["asarray", "array", "array_copy_false",
                                                                                                         "asanyarray", "array_copy_true"])),
            "dask": draw(st.booleans())}


def run_conv(case, stt):
    import pulsarbat as pb

    x = base_data(case["dtype"])
    if not admits(case["cls"], x.dtype):
        stt.label("skip_class_dtype")
        return
    z = mk_sig(pb, case["cls"], x.copy(), 0, case["dask"])
    to = None if case["to"] is None else G.DT[case["to"]]
    with warnings.catch_warnings(), np.errstate(all="ignore"):
        warnings.simplefilter("ignore")
        exp = x if to is None else x.astype(to)
        fn = case["fn"]
        needs_copy = case["dask"] or (to is not None and np.dtype(to) != x.dtype)
        if fn == "array_copy_false" and needs_copy:
            fn = "asarray"  # the array protocol lets copy=False refuse; the property only speaks of np.asarray/np.array yielding the data
        with lib("np.%s(signal, dtype=%s)" % (fn, case["to"]), any_exception=True):
            if fn == "asarray":
                r = np.asarray(z, dtype=to)
            elif fn == "asanyarray":
                r = np.asanyarray(z, dtype=to)
            elif fn == "array":
                r = np.array(z, dtype=to)
            elif fn == "array_copy_true":
                r = np.array(z, dtype=to, copy=True)
            else:
                r = np.array(z, dtype=to, copy=False)
    check(isinstance(r, np.ndarray), "np.{} returned {}", fn, type(r).__name__)
    check(same_bits(r, exp), "np.{}(signal, dtype={}) is not the signal's data ({} vs {})", fn, case["to"], r.dtype, exp.dtype)
    if not case["dask"]:
        if fn in ("array", "array_copy_true"):
            check(not np.shares_memory(r, z.data), "np.array(signal) shares memory with the signal")
        check(same_bits(z.data, x), "conversion modified the signal")
    stt.nt(to is not None)
    stt.label(fn)


# -- refusals ---------------------------------------------------------------------------------------------------------


def run_refuse(case, stt):
    import pulsarbat as pb

    x = base_data(case["dtype"])
    if not admits(case["cls"], x.dtype):
        return
    a = mk_sig(pb, case["cls"], x.copy(), 0)
    f = np.add
    table = {
        "reduce": lambda: f.reduce(a), "reduce_axis": lambda: f.reduce(a, axis=1), "accumulate": lambda: f.accumulate(a), "outer": lambda: f.outer(a, a),
        "outer_arr": lambda: f.outer(x, a), "at": lambda: f.at(a, [0], 1), "reduceat": lambda: f.reduceat(a, [0, 2]), "matmul": lambda: a @ x.T,
        "rmatmul": lambda: x.T @ a, "np.matmul": lambda: np.matmul(a, x.T), "np.sum": lambda: np.sum(a),
        "max": lambda: np.maximum.reduce(a), "np.prod": lambda: np.multiply.reduce(a),
        # matmul's siblings (generalised ufuncs that contract an axis away): the result no longer has the signal's axes
        "vecdot": lambda: np.vecdot(a, a), "vecdot_arr": lambda: np.vecdot(a, x), "vecdot_rarr": lambda: np.vecdot(x, a),
        "matvec": lambda: np.matvec(a, x[0]),
        "vecmat": lambda: np.vecmat(a, np.ones((3, 3), x.dtype)), "vecmat_rarr": lambda: np.vecmat(x[:, 0], a),
    }
    if case["what"].split("_")[0] in ("vecdot", "matvec", "vecmat") and not hasattr(np, case["what"].split("_")[0]):
        stt.label("gufunc_not_in_this_numpy")
        return
    must_raise(case["what"] + " on a signal", table[case["what"]], (TypeError,))
    check(same_bits(a.data, x), "a refused {} changed the signal", case["what"])
    stt.nt()
    stt.label(case["what"])


refuse_case = st.fixed_dictionaries({"dtype": st.sampled_from(["f8", "c16", "i8", "f4"]), "cls": st.sampled_from(["Signal", "RadioSignal", "BasebandSignal",
                                                                                                               "IntensitySignal"]),
                                     "what": st.sampled_from(["reduce", "reduce_axis", "accumulate", "outer", "outer_arr", "at", "reduceat", "matmul",
                                                              "rmatmul", "np.matmul", "np.sum", "max", "np.prod", "vecdot", "vecdot_arr", "vecdot_rarr", "matvec",
                                                              "vecmat", "vecmat_rarr"])})

SUBS = [
    EnumSub("ufunc_enumeration", enum_ufuncs, replay_ufunc,
            "exhaustive: all %d elementwise NumPy ufuncs (signature None, nin<=2, nout<=2) x 7 dtypes x arrangements {signal; signal-signal with "
            "different metadata, signal-array, array-signal, scalar both orders, dimensionless Quantity both orders, 0-d, broadcast, out=, out=tuple, "
            "Dask} x classes whose dtype set admits the result; combinations without a NumPy loop are skipped and counted; non-trivial = signal as "
            "second operand, out= form, or two outputs" % len(UFUNCS), pieces_quick=8, pieces_thorough=16),
    Sub("long_arrays", large_case(), run_large,
        "11 ufuncs on signals of 65535..131073 samples (block boundaries at 2^16) in the arrangements signal / signal-signal / signal-array / "
        "array-signal / out= / in-place / Dask-backed signal with two long plain arrays differing in 1-3 elements, both results computed in one "
        "graph; bit-identical to NumPy on the arrays; all non-trivial", quick=120, thorough=1500, pieces_quick=4),
    Sub("operators", op_case(), run_op,
        "the 18 binary and 4 unary Python operators on every class (admitted dtypes) with a signal / signal of another class / array / "
        "broadcast array / Python and NumPy scalars / dimensionless Quantity on either side, NumPy and Dask; operators without a loop must raise "
        "TypeError; non-trivial = signal as right operand, mixed classes, or a Quantity; cases matching the open finding K4 (a Quantity as LEFT "
        "operand of == / !=) are excluded by construction and counted", quick=3000, thorough=60000, pieces_quick=4,
        known=lambda case: "K4" if (case["other"] == "quantity" and case["op"] in ("==", "!=") and case["order"] == "sig_second"
                                    and case["dtype"] in ("f4", "f8") and case["cls"] in ("Signal", "RadioSignal")) else None),
    Sub("inplace_chains", chain_case(), run_chain,
        "chains of 1..5 in-place operators with scalar/array/signal operands, compared step by step with NumPy's in-place result on the buffer; "
        "the object, its buffer (also seen through an earlier view) and metadata must persist; casts NumPy refuses must raise and change "
        "nothing; non-trivial = >= 2 steps", quick=1500, thorough=30000, pieces_quick=3),
    Sub("array_conversion", conv_case(), run_conv, "np.asarray/np.asanyarray/np.array(copy=None/True/False) with and without dtype on NumPy- and "
        "Dask-backed signals; non-trivial = dtype given", quick=800, thorough=8000),
    Sub("refusals", refuse_case, run_refuse, "reduce/accumulate/outer/at/reduceat/matmul/np.sum and matmul's generalised-ufunc siblings (vecdot/matvec/vecmat) on signals raise TypeError; all non-trivial",
        quick=300, thorough=3000),
]

"""C02 -- channel frequency labels follow the band model and survive frequency slicing."""

from fractions import Fraction as F

import numpy as np
from hypothesis import strategies as st

from ..core import Sub, check, lib, must_raise
from .. import oracle as O, gen as G
from ..contract import contract, assert_labels, assert_start, assert_rate, bits_equal, labels_hz, same_start

ASSUMPTIONS = [
    "labels are float64: tolerance (8 + 2*depth) ulp of the largest |label| (or of the bandwidth), depth = nested slices",
    "generator keeps chan_bw/|center_freq| >= 1e-9 so that float64 labels can resolve a channel at all",
]


def radio_spec(**kw):
    return G.signal_spec(classes=G.RADIO, nmax=24, nchan_max=17, **kw)


def _chan_range(draw, nchan):
    a = draw(st.integers(0, nchan - 1))
    b = draw(st.integers(a + 1, nchan))
    form = draw(st.integers(0, 3))
    if form == 0:
        return [a, b], a, b
    if form == 1:
        return [a - nchan if a else None, b - nchan if b < nchan else None], a, b
    if form == 2:
        return [a if a else None, b if b < nchan else nchan + draw(st.integers(0, 5))], a, b
    return [a if a else -nchan - draw(st.integers(0, 3)), b if b < nchan else None], a, b


# -- 1. the band model ----------------------------------------------------------------------------


def run_labels(spec, stt):
    z = G.build(spec)
    contract(z, "constructor")
    nchan = spec["sshape"][0]
    exp = G.exact_labels(spec)
    assert_labels(z, exp, 0, "band model: ")
    bw = O.fq(spec["sr"]) if spec["cls"] in G.BASEBAND else O.fq(spec["bw"])
    cf = O.fq(spec["cf"])
    check(z.nchan == nchan, "nchan {} != {}", z.nchan, nchan)
    if nchan % 2:
        check(z.freq_align == "center", "odd channel count but freq_align = {}", z.freq_align)
    else:
        check(z.freq_align == spec["align"], "freq_align {} != given {}", z.freq_align, spec["align"])
    got = labels_hz(z)
    scale = max(abs(x) for x in exp + [bw * nchan])
    tol = scale * F(2.220446049250313e-16) * 8
    for i in range(1, nchan):
        check(abs((got[i] - got[i - 1]) - bw) <= 2 * tol, "labels {} and {} are {} Hz apart, chan_bw = {} Hz", i - 1, i,
              float(got[i] - got[i - 1]), float(bw))
    lo, hi = O.hz(z.min_freq), O.hz(z.max_freq)
    check(abs(lo - (cf - bw * nchan / 2)) <= tol and abs(hi - (cf + bw * nchan / 2)) <= tol,
          "band edges [{}, {}] != center -/+ nchan*chan_bw/2", float(lo), float(hi))
    check(abs(O.hz(z.bandwidth) - nchan * bw) <= tol, "bandwidth {} != nchan*chan_bw", z.bandwidth)
    for g in got:
        check(lo - tol <= g <= hi + tol, "label {} outside [min_freq, max_freq]", float(g))
    stt.nt(nchan % 2 == 0 and spec["align"] != "center")
    stt.label(spec["cls"])
    stt.label("nchan_even" if nchan % 2 == 0 else "nchan_odd")
    stt.label("align_" + spec["align"])
    stt.label("cf_unit_" + spec["cf"]["u"])


# -- 2. frequency slicing (nested, combined with time slices) ----------------------------------------


@st.composite
def fslice_case(draw):
    spec = draw(radio_spec())
    n, nchan = spec["n"], spec["sshape"][0]
    ops = []
    lo, hi, cur_n = 0, nchan, n
    for _ in range(draw(st.integers(1, 3))):
        fs, a, b = _chan_range(draw, hi - lo)
        kind = draw(st.sampled_from(["both", "both", "freq_full_time", "ellipsis_like"]))
        if kind == "both":
            # a stepped time slice of a *baseband* signal changes sample_rate and therefore chan_bw (they are tied),
            # so its labels legitimately change: steps are only drawn for the other classes
            ts = draw(G.slices(cur_n, allow_step=spec["cls"] not in G.BASEBAND))
        else:
            ts = [None, None, None]
        ops.append({"t": ts, "f": fs})
        cur_n = len(range(*slice(*ts).indices(cur_n)))
        lo, hi = lo + a, lo + b
    return {"sig": spec, "ops": ops}


def run_fslice(case, stt):
    spec = case["sig"]
    z0 = G.build(spec)
    exp_all = G.exact_labels(spec)
    nchan = spec["sshape"][0]
    lo, hi = 0, nchan
    z = z0
    data = z0.data
    T = None if z0.start_time is None else O.T(z0.start_time)
    r = O.fq(spec["sr"])
    off = F(0)
    parity_change = False
    for d, op in enumerate(case["ops"], 1):
        ts, fs = slice(*op["t"]), slice(*op["f"])
        a, b, _ = fs.indices(hi - lo)
        with lib("z[t, f]"):
            y = z[ts, fs]
        contract(y, "freq slice")
        t0, t1, tstep = ts.indices(len(z))
        data = data[ts, fs]
        check(bits_equal(y.data, data), "depth {}: data is not the selected block", d)
        if (b - a) % 2 != (hi - lo) % 2:
            parity_change = True
        lo, hi = lo + a, lo + b
        assert_labels(y, exp_all[lo:hi], d, "depth %d, channels %d:%d of the original: " % (d, lo, hi))
        check(O.hz(y.chan_bw) == O.hz(z0.chan_bw), "chan_bw changed by frequency slicing")
        newlen = len(range(t0, t1, tstep))
        if T is not None and len(z) > 0 and newlen > 0:
            T, off = T + t0 / r, off + abs(t0 / r)
        elif T is not None and y.start_time is not None:
            T = O.T(y.start_time)
        if tstep > 1:
            r = r / tstep
        if newlen > 0:
            assert_start(y, T, k=d, offset_s=off, what="depth %d: " % d)
        else:
            check((y.start_time is None) == (T is None), "start_time presence changed")
        assert_rate(y, r, k=d, what="depth %d: " % d)
        check(type(y) is type(z0), "type changed by slicing")
        z = y
    even_edge = nchan % 2 == 0 and spec["align"] != "center"
    stt.nt(even_edge and (parity_change or len(case["ops"]) >= 2))
    stt.label("depth_%d" % len(case["ops"]))
    stt.label("time_len_lt_nchan" if spec["n"] < nchan else "time_len_ge_nchan")
    stt.label("open_or_negative_bound" if any(v is None or v < 0 for op in case["ops"] for v in op["f"]) else "plain_bounds")


# -- 3. Stokes / trailing-axis component selection ------------------------------------------------------


@st.composite
def comp_case(draw):
    kind = draw(st.sampled_from(["stokes", "stokes", "trailing"]))
    if kind == "stokes":
        spec = draw(G.signal_spec(classes=["FullStokesSignal"], nmax=12, nchan_max=9))
        pre = draw(st.one_of(st.none(), st.tuples(G.slices(spec["n"], allow_step=True),
                                                  st.just(None))))
        fs = None
        if pre is not None:
            nchan = spec["sshape"][0]
            a = draw(st.integers(0, nchan - 1))
            b = draw(st.integers(a + 1, nchan))
            pre = {"t": pre[0], "f": [a, b]}
        return {"kind": kind, "sig": spec, "comp": draw(st.sampled_from(["I", "Q", "U", "V"])),
                "via": draw(st.sampled_from(["item", "attr"])), "pre": pre}
    spec = draw(G.signal_spec(classes=["RadioSignal", "IntensitySignal", "BasebandSignal"], nmax=12, nchan_max=9,
                              max_trailing=2).filter(lambda s: len(s["sshape"]) >= 2))
    tr = spec["sshape"][1:]
    idx = [draw(st.integers(-d, d - 1)) for d in tr[: draw(st.integers(1, len(tr)))]]
    return {"kind": kind, "sig": spec, "idx": idx}


def run_comp(case, stt):
    spec = case["sig"]
    z = G.build(spec)
    exp = G.exact_labels(spec)
    depth = 0
    if case["kind"] == "stokes":
        if case["pre"]:
            with lib("slice"):
                z = z[slice(*case["pre"]["t"]), slice(*case["pre"]["f"])]
            exp = exp[slice(*case["pre"]["f"])]
            depth = 1
        k = "IQUV".index(case["comp"])
        with lib("stokes component"):
            y = z[case["comp"]] if case["via"] == "item" else getattr(z, "stokes" + case["comp"])
        contract(y, "stokes component")
        import pulsarbat as pb

        check(type(y) is pb.IntensitySignal, "Stokes component is a {}", type(y).__name__)
        check(bits_equal(y.data, np.take(z.data, k, axis=2)), "s[{!r}] does not return component {}", case["comp"], k)
        must_raise("unknown Stokes key", lambda: z["X"], (KeyError,))
    else:
        ix = (slice(None), slice(None)) + tuple(case["idx"])
        with lib("trailing-axis selection"):
            y = z[ix]
        contract(y, "trailing selection")
        check(type(y) is type(z), "type changed by trailing-axis selection")
        check(bits_equal(y.data, z.data[ix]), "trailing-axis selection returned other data")
    assert_labels(y, exp, depth, "component selection: ")
    same_start(y, z, "component selection: ")
    check(O.hz(y.sample_rate) == O.hz(z.sample_rate), "sample_rate changed by component selection")
    check(O.hz(y.chan_bw) == O.hz(z.chan_bw), "chan_bw changed by component selection")
    check(y.meta == z.meta, "meta changed by component selection")
    nchan = len(exp)
    stt.nt(nchan % 2 == 0 and z.freq_align != "center")
    stt.label(case["kind"])


# -- 4. labels after attribute assignment (histories on one object) ----------------------------------------------


@st.composite
def assign_case(draw):
    spec = draw(G.signal_spec(classes=["RadioSignal", "IntensitySignal", "FullStokesSignal", "BasebandSignal", "DualPolarizationSignal"], nmax=6,
                              nchan_max=8))
    steps = []
    for _ in range(draw(st.integers(1, 5))):
        kind = draw(st.sampled_from(["look", "look", "set_cf", "set_align", "set_bw", "slice", "slice", "shift_cf_channels", "refused", "set_rate"]))
        if kind == "set_cf":
            steps.append([kind, draw(G.freq_q(3, 10.5, units=("Hz", "kHz", "MHz", "GHz")))])
        elif kind in ("set_bw", "set_rate"):
            steps.append([kind, draw(G.freq_q(0, 7, units=("Hz", "kHz", "MHz")))])
        elif kind == "set_align":
            steps.append([kind, draw(st.sampled_from(["bottom", "center", "top"]))])
        elif kind == "shift_cf_channels":
            steps.append([kind, draw(st.integers(-3, 3))])
        elif kind == "refused":
            steps.append([kind, draw(st.integers(0, 10**6))])
        else:
            steps.append([kind])
    return {"sig": spec, "steps": steps}


def run_assign(case, stt):
    import copy

    spec = copy.deepcopy(case["sig"])
    z = G.build(spec)
    nchan = spec["sshape"][0]
    baseband = spec["cls"] in G.BASEBAND
    looked = changed_after_look = False
    for step in case["steps"]:
        kind = step[0]
        with lib("attribute assignment " + kind):
            if kind == "set_cf":
                # keep labels resolvable: chan_bw/|cf| >= 1e-9
                bw = O.fq(spec["sr"]) if baseband else O.fq(spec["bw"])
                if O.fq(step[1]) > bw * 10**9:
                    continue
                z.center_freq = O.q(step[1])
                spec["cf"] = step[1]
            elif kind == "shift_cf_channels":
                bwq = z.chan_bw
                z.center_freq = z.center_freq + step[1] * bwq
                v = z.center_freq
                spec["cf"] = {"v": float(v.value), "u": [k for k in O.FREQ_UNITS if O.unit(k) == v.unit][0]}
            elif kind == "set_bw":
                if baseband:
                    continue
                if abs(O.fq(spec["cf"])) > O.fq(step[1]) * 10**9:
                    continue
                z.chan_bw = O.q(step[1])
                spec["bw"] = step[1]
            elif kind == "set_align":
                z.freq_align = step[1]
                spec["align"] = step[1]
            elif kind == "set_rate":
                # the sample rate is re-assigned (a baseband signal's channel width IS its sample rate)
                if abs(O.fq(spec["cf"])) > O.fq(step[1]) * 10**9:
                    continue
                z.sample_rate = O.q(step[1])
                spec["sr"] = step[1]
            elif kind == "slice":
                h = max(1, nchan // 2)
                y = z[:, :h]
                want = labels_hz(z)[:h]
                gotl = labels_hz(y)
                tl = max(abs(v) for v in want + [O.hz(z.chan_bw) * nchan]) * F(2.220446049250313e-16) * 16
                check(len(gotl) == h and all(abs(a - b) <= tl for a, b in zip(gotl, want)), "after {}: the first {} channels sliced off are labelled {} Hz, "
                      "the signal's own labels there are {} Hz", case["steps"], h, [float(v) for v in gotl], [float(v) for v in want])
            elif kind == "refused":
                G.bad_assign(z, step[1])  # an invalid value is refused and leaves the labels as they were
        if kind.startswith("set") or kind == "shift_cf_channels":
            changed_after_look |= looked
        looked = True
        exp = G.exact_labels(spec)
        assert_labels(z, exp, 1, "after %s: " % (step,))
        bw = O.fq(spec["sr"]) if baseband else O.fq(spec["bw"])
        cf = O.fq(spec["cf"])
        tol = max(abs(cf) + bw * nchan, bw * nchan) * F(2.220446049250313e-16) * 8
        check(abs(O.hz(z.min_freq) - (cf - bw * nchan / 2)) <= tol and abs(O.hz(z.max_freq) - (cf + bw * nchan / 2)) <= tol,
              "after {}: band edges do not follow the assigned metadata", step)
        if nchan % 2:
            check(z.freq_align == "center", "after {}: odd channel count but freq_align = {}", step, z.freq_align)
    stt.nt(changed_after_look and nchan % 2 == 0)
    for step in case["steps"]:
        stt.label("step_" + step[0])


# -- 5. user subclasses that override a public band accessor ---------------------------------------------------------


@st.composite
def accessor_case(draw):
    which = draw(st.sampled_from(["oversampled", "own_centre"]))
    spec = draw(G.signal_spec(classes=["BasebandSignal"] if which == "oversampled" else ["RadioSignal"], nmax=12, nchan_max=12, max_trailing=1))
    spec.pop("sub", None)
    nchan = spec["sshape"][0]
    rng, a, b = _chan_range(draw, nchan)
    return {"sig": spec, "which": which, "rng": rng, "a": a, "b": b, "t": draw(st.booleans())}


def run_accessor(case, stt):
    """The band model is stated in terms of the PUBLIC center_freq / chan_bw / freq_align: a user subclass that derives one of them (an
    oversampled filterbank whose channel spacing is 27/32 of the sample rate; a class keeping the centre in a field of its own) is labelled by
    what its accessors say, before and after slicing."""
    spec, which = case["sig"], case["which"]
    cls = G.MyOversampledSignal if which == "oversampled" else G.MyOwnCentreSignal
    with lib("constructing a user subclass (%s)" % which):
        z = cls(G.mk_data(spec), **G.sig_kwargs(spec))
    nchan = spec["sshape"][0]
    cf = O.fq(spec["cf"])
    bw = O.hz(z.chan_bw)
    if which == "oversampled":
        check(abs(bw - O.fq(spec["sr"]) * F(27, 32)) <= abs(bw) * F(1, 2**50), "harness: overridden chan_bw")
    al = F({"bottom": 0, "center": 1, "top": 2}[spec["align"] if nchan % 2 == 0 else "center"], 2)

    def model(n0, n):
        return [cf + bw * (i + al - F(nchan, 2)) for i in range(n0, n0 + n)]

    assert_labels(z, model(0, nchan), 1, "%s subclass: " % which)
    check(abs(O.hz(z.bandwidth) - nchan * bw) <= abs(nchan * bw) * F(1, 2**48), "{} subclass: bandwidth {} != nchan * chan_bw", which, z.bandwidth)
    with lib("frequency slice of a user subclass"):
        y = z[1:, slice(*case["rng"])] if case["t"] and spec["n"] > 1 else z[:, slice(*case["rng"])]
    check(type(y) is cls, "slice of a {} is a {}", cls.__name__, type(y).__name__)
    assert_labels(y, model(case["a"], case["b"] - case["a"]), 2, "%s subclass, channels [%d:%d]: " % (which, case["a"], case["b"]))
    check(abs(O.hz(y.chan_bw) - bw) <= abs(bw) * F(1, 2**50), "{} subclass: chan_bw of the slice {} != {}", which, y.chan_bw, z.chan_bw)
    stt.nt(case["b"] - case["a"] < nchan)
    stt.label(which)
    stt.label("nchan_even" if nchan % 2 == 0 else "nchan_odd")


SUBS = [
    Sub("band_model", radio_spec(), run_labels,
        "every radio class, nchan 1..17, alignment, centre/bandwidth over decades and units; non-trivial = even nchan with "
        "'bottom'/'top'", quick=2000, thorough=40000),
    Sub("freq_slice", fslice_case(), run_fslice,
        "1..3 nested [time, channel-range] slices with negative/open/out-of-range bounds; non-trivial = even 'bottom'/'top' band "
        "and (a slice changing the parity of the channel count, or depth >= 2)", quick=2500, thorough=60000),
    Sub("component", comp_case(), run_comp,
        "Stokes component by key/attribute (also after slicing, with trailing axes) and trailing-axis index selection; "
        "non-trivial = even channel count with alignment 'bottom'/'top'", quick=1200, thorough=20000),
    Sub("assignment_history", assign_case(), run_assign,
        "1..5 steps on ONE radio signal object: look at the labels, assign center_freq / chan_bw / freq_align, move the centre by whole "
        "channels, take a frequency slice -- after every step the labels and band edges must follow the band model of the current metadata; "
        "non-trivial = an assignment after the labels had been looked at, even channel count", quick=1500, thorough=30000),
    Sub("subclass_accessors", accessor_case(), run_accessor,
        "user subclasses overriding a public band accessor (BasebandSignal with chan_bw = 27/32 sample_rate; RadioSignal keeping center_freq in "
        "its own field): labels, bandwidth and the labels / class / chan_bw of frequency slices follow the public accessors; non-trivial = a "
        "proper channel sub-range", quick=400, thorough=6000),
]

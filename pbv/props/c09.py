"""C09 -- Dask-backed signals give identical results, lazily, for any chunks or scheduler."""

import copy

import numpy as np
import astropy.units as u
from hypothesis import strategies as st

from ..core import Sub, check, lib, Violation
from .. import oracle as O, gen as G, catalogue as C
from ..contract import contract
from .c16 import attrs, same_attrs

ASSUMPTIONS = [
    "differential oracle: the same operation with the same arguments on the NumPy-backed twin of the signal",
    "values must be bit-identical for operations that only move/select/combine samples elementwise; FFT-based operations within 8 eps (1+log2 N) max|x| "
    "at the result's precision (the same FFT may run on differently aligned buffers)",
    "laziness is observed with a counting sentinel: the input graph is a dask.delayed producer that bumps a counter (in-process schedulers)",
    "'every scheduler' = synchronous, threads, processes (dask.distributed is not installed in the sandbox)",
    "an operation may refuse a chunking of the time axis (FFT-based transforms need it whole) -- by raising, never by returning other values",
]

COUNTER = {"n": 0}


def produce(spec):
    COUNTER["n"] += 1
    return G.mk_data(spec)


def dask_signal(spec, chunks):
    import dask
    import dask.array as da

    shape = (spec["n"],) + tuple(spec["sshape"])
    x = da.from_delayed(dask.delayed(produce, pure=False)(spec), shape=shape, dtype=G.DT[spec["dtype"]])
    x = x.rechunk(tuple(chunks))
    return G.build(spec, data=x)


@st.composite
def chunking(draw, shape, whole_time):
    out = []
    for ax, d in enumerate(shape):
        if d == 0:
            out.append((0,))
            continue
        if ax == 0 and whole_time:
            out.append((d,))
            continue
        mode = draw(st.sampled_from(["whole", "ones", "split", "split"]))
        if mode == "whole" or d == 1:
            out.append((d,))
        elif mode == "ones":
            out.append((1,) * d)
        else:
            k = draw(st.integers(1, d - 1))
            rest = d - k
            if rest > 1 and draw(st.booleans()):
                j = draw(st.integers(1, rest - 1))
                out.append((k, j, rest - j))
            else:
                out.append((k, rest))
    return [list(c) for c in out]


OP_CLASSES = {
    "slice_tf": G.RADIO, "stokes_component": ["FullStokesSignal"], "freq_shift": G.BASEBAND, "concatenate_freq": G.RADIO,
    "coherent_dedispersion": G.BASEBAND, "incoherent_dedispersion": G.RADIO, "to_linear": ["DualPolarizationSignal"],
    "to_circular": ["DualPolarizationSignal"], "to_stokes": ["DualPolarizationSignal"], "to_intensity": G.BASEBAND, "stft": G.BASEBAND, "istft": G.BASEBAND,
}
RARE = ["compute", "persist", "to_dask_array", "rechunk", "like", "to_linear", "to_circular"]


@st.composite
def dask_case(draw, ops=None):
    names = sorted(ops if ops is not None else C.OPS)
    # draw the operation first (uniformly, container helpers at a lower rate), then a signal of a class it applies to
    name = draw(st.sampled_from(names))
    if ops is None and name in RARE and draw(st.booleans()):
        name = draw(st.sampled_from([n for n in names if n not in RARE]))
    op = C.OPS[name]
    classes = OP_CLASSES.get(name, G.CLASSES)
    spec = draw(G.signal_spec(classes=classes, nmin=op.needs_len, nmax=40, nchan_max=6, max_trailing=1, dtypes=["f4", "f8", "c8", "c16"],
                              positive_band=True, data_kinds=("noise", "index"), sr=G.freq_q(0, 8), ratio_lo=1e-6))
    if name in ("rechunk", "to_dask_array", "compute", "persist", "like", "slice_t", "fast_len") and draw(st.integers(0, 3)) == 0:
        spec["n"] = 0  # zero-length signals are signals too
    if name == "concatenate_freq" and spec["sshape"][0] < 2:
        spec["sshape"][0] = draw(st.integers(2, 6))
    if name == "trailing_index":
        base = 2 if spec["cls"] in ("FullStokesSignal", "DualPolarizationSignal") else (1 if spec["cls"] != "Signal" else 0)
        if len(spec["sshape"]) <= base:
            spec["sshape"] = spec["sshape"] + [draw(st.integers(1, 3))]
    info = {"cls": spec["cls"], "n": spec["n"], "sshape": spec["sshape"], "dtype": str(np.dtype(G.DT[spec["dtype"]])), "start": spec["t0"] is not None,
            "radio": spec["cls"] != "Signal", "baseband": spec["cls"] in G.BASEBAND, "positive_band": True}
    args = op.args(draw, info)
    if draw(st.integers(0, 9)) == 0:
        spec["nonfinite"] = {"at": [draw(st.integers(0, 10**6)) for _ in range(draw(st.integers(1, 2)))]}  # NaN (and +Inf) samples in the data
    whole = op.fft_time and draw(st.integers(0, 4)) != 0
    chunks = draw(chunking((spec["n"],) + tuple(spec["sshape"]), whole))
    return {"sig": spec, "op": name, "args": args, "chunks": chunks, "sched": draw(st.sampled_from(["synchronous", "synchronous", "threads"]))}


def arr(x, sched="synchronous"):
    import dask.array as da

    if isinstance(x, da.Array):
        x = x.compute(scheduler=sched)
    return x


def shift_size(args):
    """largest |shift| among the arguments of a shift-type operation (0 otherwise): the two backends build their frequency grids with
    functions that differ in the last bit (da.fft.fftfreq / np.fft.fftfreq), which the phase ramp multiplies by the shift"""
    v = args.get("vals") if isinstance(args, dict) else None
    try:
        return float(np.max(np.abs(np.asarray(v, dtype=float)))) if v is not None else 0.0
    except (TypeError, ValueError):
        return 0.0


def compare(r_np, r_da, op, sched, what, args=None):
    arg_magnitude = shift_size(args)
    import dask.array as da
    import pulsarbat as pb

    check(type(r_da) is type(r_np), "{}: Dask gives {}, NumPy gives {}", what, type(r_da).__name__, type(r_np).__name__)
    contract(r_da, what)
    check(same_attrs(attrs(r_da), attrs(r_np)), "{}: metadata differ: Dask {} vs NumPy {}", what, attrs(r_da), attrs(r_np))
    check(r_da.shape == r_np.shape, "{}: shape Dask {} vs NumPy {}", what, r_da.shape, r_np.shape)
    check(r_da.data.dtype == r_np.data.dtype, "{}: dtype Dask {} vs NumPy {}", what, r_da.data.dtype, r_np.data.dtype)
    a, b = np.asarray(arr(r_da.data, sched)), np.asarray(r_np.data)
    check(a.shape == b.shape and a.dtype == b.dtype, "{}: computed shape/dtype {} {} vs {} {}", what, a.shape, a.dtype, b.shape, b.dtype)
    if a.size == 0:
        return
    if a.dtype.kind in "fc":
        # non-finite samples sit at the same places, and exact zeros carry the same sign (a zero-filled sample is +0 on both backends)
        check(np.array_equal(np.isnan(a), np.isnan(b)), "{}: NaN samples at different places: Dask {} vs NumPy {} of {}", what, int(np.isnan(a).sum()),
              int(np.isnan(b).sum()), a.size)
        fin = np.isfinite(b) & np.isfinite(a)
        check(np.array_equal(np.isinf(a), np.isinf(b)), "{}: infinite samples at different places", what)
        for part in ((lambda v: v.real), (lambda v: v.imag)) if a.dtype.kind == "c" else ((lambda v: v),):
            za, zb = part(a), part(b)
            zero = (zb == 0) & (za == 0)
            check(np.array_equal(np.signbit(za[zero]), np.signbit(zb[zero])), "{}: exact zeros carry another sign than in the NumPy-backed result "
                  "({} of {} zeros)", what, int(np.sum(np.signbit(za[zero]) != np.signbit(zb[zero]))), int(zero.sum()))
        if not fin.all():
            a, b = np.where(fin, a, 0), np.where(fin, b, 0)
    if op.exact:
        check(a.tobytes() == b.tobytes(), "{}: computed values differ from the NumPy-backed result (max |diff| {:.3g})", what,
              float(np.max(np.abs(a.astype(np.complex128) - b.astype(np.complex128)))))
    else:
        eps = np.finfo(a.dtype).eps if a.dtype.kind in "fc" else 0
        scale = float(np.max(np.abs(b)))
        d = float(np.max(np.abs(a - b)))
        tol = 8 * eps * (1 + np.log2(max(b.shape[0], 2))) * scale * (1 + arg_magnitude)
        check(d <= tol, "{}: computed values differ from the NumPy-backed result by {:.3g} (tol {:.3g})", what, d, tol)


def run_dask(case, stt, sched=None):
    import pulsarbat as pb
    import dask.array as da

    spec, op = case["sig"], C.OPS[case["op"]]
    sched = sched or case["sched"]
    args = case["args"]
    what = "%s(%s) chunks=%s [%s]" % (op.name, args, case["chunks"], sched)
    z_np = G.build(spec)
    try:
        r_np = op.run(pb, z_np, copy.deepcopy(args))
    except Exception as e:  # the NumPy twin refuses these arguments: the Dask twin must refuse as well (or at least not invent a result)
        if op.name in ("compute", "persist", "to_dask_array", "rechunk", "like"):
            # the container helpers take no arguments that could be invalid: they must work for every signal
            raise Violation(f"{what}: {op.name}() of a valid NumPy-backed signal raises {type(e).__name__}: {str(e)[:120]}")
        z_da = dask_signal(spec, case["chunks"])
        try:
            r = op.run(pb, z_da, copy.deepcopy(args))
            if isinstance(r, pb.Signal) and isinstance(r.data, da.Array):
                r.data.compute(scheduler="synchronous")
        except Exception:
            stt.label("both_refuse")
            return
        raise Violation(f"{what}: NumPy-backed call raises {type(e).__name__} ({str(e)[:80]}) but the Dask-backed call returns a result")
    COUNTER["n"] = 0
    z_da = dask_signal(spec, case["chunks"])
    time_chunked = len(case["chunks"][0]) > 1
    try:
        r_da = op.run(pb, z_da, copy.deepcopy(args))
        built = COUNTER["n"]
        if isinstance(r_da, pb.Signal) and r_da is not z_da and isinstance(r_da.data, da.Array) and len(str(case)) % 2:
            # the lazy result describes the input AS IT WAS when the operation was called: re-labelling the input object afterwards (before
            # anything is computed) must not change what the result computes to
            if isinstance(z_da, pb.RadioSignal):
                z_da.center_freq = z_da.center_freq * 1.25 + 3 * z_da.chan_bw
                z_da.freq_align = "top" if z_da.freq_align != "top" else "bottom"
            if not isinstance(z_da, pb.BasebandSignal):
                z_da.sample_rate = z_da.sample_rate * 3
            z_da.start_time = None if z_da.start_time is not None else G.mk_time({"mjd": 59000, "frac": 0.125})
            if isinstance(z_da, pb.DualPolarizationSignal):
                z_da.pol_type = "circular" if z_da.pol_type == "linear" else "linear"
            stt.label("input_relabelled_before_compute")
        if isinstance(r_da, pb.Signal) and isinstance(r_da.data, da.Array):
            arr(r_da.data, "synchronous")
    except Exception as e:
        # an FFT-based operation may refuse a chunking of the axis it transforms (time; for istft the channel axis)
        if (time_chunked and op.fft_time) or (op.name == "istft" and (time_chunked or len(case["chunks"][1]) > 1)):
            stt.label("refused_chunking_of_transformed_axis")
            return
        import traceback

        raise Violation(f"{what}: Dask-backed call raises {type(e).__name__}: {str(e)[:200]} although the NumPy-backed call succeeds")
    check(isinstance(r_da, pb.Signal), "{}: returned {}", what, type(r_da).__name__)
    if op.name == "compute":
        check(isinstance(r_da.data, np.ndarray), "{}: compute() left a {}", what, type(r_da.data).__name__)
    else:
        check(isinstance(r_da.data, da.Array), "{}: result of a Dask-backed signal is backed by {}", what, type(r_da.data).__name__)
        if op.name != "persist" and not (op.name == "time_shift" and r_da is z_da):
            check(built == 0, "{}: building the result computed the input graph {} time(s) -- not lazy", what, built)
    compare(r_np, r_da, op, sched, what, args=case.get("args"))
    if sched != "processes" and z_da.data.size:
        check(COUNTER["n"] >= 1, "harness: sentinel never ran")
    nchunks = [len(c) for c in case["chunks"]]
    touched = nchunks[0] > 1 or any(n > 1 for n in nchunks[1:])
    stt.nt(touched)
    stt.label("op_" + op.name)
    stt.label("sched_" + sched)
    stt.label("time_chunked" if time_chunked else "time_whole")
    stt.label("sample_axes_chunked" if any(n > 1 for n in nchunks[1:]) else "sample_axes_whole")


def run_dask_proc(case, stt):
    run_dask(case, stt, sched="processes")


# -- several results of one Dask input computed in one graph (key collisions, shared tasks) ----------------------------


@st.composite
def joint_case(draw):
    base = draw(dask_case(ops=["coherent_dedispersion", "time_shift", "freq_shift", "incoherent_dedispersion", "snippet", "ufunc_expr", "slice_t",
                               "stft", "concatenate_time"]))
    spec = base["sig"]
    info = {"cls": spec["cls"], "n": spec["n"], "sshape": spec["sshape"], "dtype": str(np.dtype(G.DT[spec["dtype"]])), "start": spec["t0"] is not None,
            "radio": spec["cls"] != "Signal", "baseband": spec["cls"] in G.BASEBAND, "positive_band": True}
    op = C.OPS[base["op"]]
    more = [op.args(draw, info) for _ in range(draw(st.integers(1, 2)))]
    return {"base": base, "more": more, "same_input": draw(st.booleans())}


def run_joint(case, stt):
    import dask
    import dask.array as da
    import pulsarbat as pb

    base = case["base"]
    spec, op = base["sig"], C.OPS[base["op"]]
    arglist = [base["args"]] + case["more"]
    z_np = G.build(spec)
    refs = []
    for a in arglist:
        try:
            refs.append(op.run(pb, z_np, copy.deepcopy(a)))
        except Exception:
            refs.append(None)
    z_shared = dask_signal(spec, base["chunks"])
    lazies = []
    for a, r in zip(arglist, refs):
        if r is None:
            lazies.append(None)
            continue
        z_da = z_shared if case["same_input"] else dask_signal(spec, base["chunks"])
        try:
            lazies.append(op.run(pb, z_da, copy.deepcopy(a)))
        except Exception:
            if len(base["chunks"][0]) > 1 and op.fft_time:
                lazies.append(None)
                continue
            raise Violation(f"{op.name}({a}): Dask-backed call raises although the NumPy-backed call succeeds")
    idx = [i for i, l in enumerate(lazies) if l is not None and isinstance(l.data, da.Array)]
    if len(idx) < 2:
        stt.label("skip_less_than_two")
        return
    try:
        outs = dask.compute(*[lazies[i].data for i in idx], scheduler=base["sched"])
    except Exception as e:
        if len(base["chunks"][0]) > 1 and op.fft_time:
            stt.label("refused_time_chunking")
            return
        raise Violation(f"joint compute of {op.name} results raises {type(e).__name__}: {str(e)[:200]}")
    for i, o in zip(idx, outs):
        b = np.asarray(refs[i].data)
        what = "%s(%s) computed together with %d other result(s)" % (op.name, arglist[i], len(idx) - 1)
        check(o.shape == b.shape and o.dtype == b.dtype, "{}: shape/dtype {} {} vs {} {}", what, o.shape, o.dtype, b.shape, b.dtype)
        if o.size:
            if o.dtype.kind in "fc" and not (np.isfinite(o).all() and np.isfinite(b).all()):
                check(np.array_equal(np.isnan(o), np.isnan(b)) and np.array_equal(np.isinf(o), np.isinf(b)), "{}: non-finite samples at other places than in "
                      "its NumPy-backed result", what)
                fin = np.isfinite(o) & np.isfinite(b)
                o, b = np.where(fin, o, 0), np.where(fin, b, 0)
            eps = np.finfo(o.dtype).eps if o.dtype.kind in "fc" else 0
            d = float(np.max(np.abs(o - b)))
            tol = 0 if op.exact else 8 * eps * (1 + np.log2(max(b.shape[0], 2))) * float(np.max(np.abs(b))) * (1 + shift_size(arglist[i]))
            check(d <= tol, "{}: differs from its NumPy-backed result by {:.3g} (tol {:.3g})", what, d, tol)
    stt.nt(len(set(C and str(arglist[i]) for i in idx)) >= 2)
    stt.label("op_" + op.name)
    stt.label("same_input" if case["same_input"] else "separate_inputs")


# -- library calls as concurrent tasks of the threaded scheduler ----------------------------------------------------------------

THREAD_OPS = ["freq_shift", "time_shift", "coherent_dedispersion", "incoherent_dedispersion", "to_stokes", "to_circular", "ufunc_expr", "snippet", "stft",
              "labels", "real_to_complex", "phase_strings", "fast_len_calls"]


def _labels_task(z, rounds):
    """read the channel labels of z and of a channel range of it again and again; -> number of reads that differ from the first read of this
    task... the first read is itself compared with the sequential reference by the caller"""
    first = (np.asarray(z.channel_freqs.value).copy(), np.asarray(z[:, 1:-1].channel_freqs.value).copy())
    bad = 0
    for _ in range(rounds):
        a, b = np.asarray(z.channel_freqs.value), np.asarray(z[:, 1:-1].channel_freqs.value)
        bad += int(a.tobytes() != first[0].tobytes()) + int(b.tobytes() != first[1].tobytes())
    return first, bad


@st.composite
def threads_case(draw):
    name = draw(st.sampled_from(THREAD_OPS))
    classes = ["RadioSignal", "BasebandSignal", "IntensitySignal"] if name == "labels" else OP_CLASSES.get(name, ["Signal", "BasebandSignal"])
    if name in ("real_to_complex", "phase_strings", "fast_len_calls"):
        classes = ["Signal"]
    n = draw(st.sampled_from([4096, 8192, 3001])) if name != "labels" else 4
    spec = draw(G.signal_spec(classes=classes, nmin=n, nmax=n, nchan_max=4, max_trailing=0, dtypes=["f4", "f8", "c8", "c16"], positive_band=True,
                              data_kinds=("noise",), sr=G.freq_q(3, 8), ratio_lo=1e-6))
    spec["n"] = n
    if name == "labels":
        spec["sshape"][0] = draw(st.sampled_from([256, 1024, 4096]))
    info = {"cls": spec["cls"], "n": spec["n"], "sshape": spec["sshape"], "dtype": str(np.dtype(G.DT[spec["dtype"]])), "start": spec["t0"] is not None,
            "radio": spec["cls"] != "Signal", "baseband": spec["cls"] in G.BASEBAND, "positive_band": True}
    k = draw(st.integers(4, 8))
    calls = []
    for i in range(k):
        if name == "fast_len_calls":
            # lengths asked for by one thread: mostly modest ones, one far beyond anything seen before in the process
            args = [draw(st.integers(11, 10**5)) for _ in range(4)] + [draw(st.integers(2**40, 2**61))] + [draw(st.integers(11, 10**4)) for _ in range(3)]
            if draw(st.booleans()):
                args = args[4:5] + args[:4] + args[5:]
        else:
            args = None if name in ("labels", "real_to_complex", "phase_strings") else C.OPS[name].args(draw, info)
        calls.append({"args": args, "seed": draw(st.integers(0, 10**6)), "align": draw(st.sampled_from(["bottom", "center", "top"]))})
    return {"sig": spec, "op": name, "calls": calls}


def run_threads(case, stt):
    """K calls of one operation on K equally shaped NumPy-backed signals (own data, alignment, arguments): first one after the other, then
    as dask.delayed tasks of ONE graph under the threaded scheduler (8 workers), three times -- every result bit-identical to its sequential
    one.  (Shared scratch space or other module state would make concurrent calls interfere; a sequential harness cannot see that.)"""
    import dask
    import pulsarbat as pb

    spec, name = case["sig"], case["op"]
    sigs = []
    for c in case["calls"]:
        sp = dict(spec, data={"kind": "noise", "seed": c["seed"]})
        if "align" in sp:
            sp["align"] = c["align"]
        sigs.append(G.build(sp))

    fresh = None
    if name == "fast_len_calls":
        import importlib
        import pulsarbat.utils as U0

        state = {"U": U0}

        def fresh():
            state["U"] = importlib.reload(U0)  # empty tables / caches before every round (as in C18 call_orders)

        def call(z, a):
            U = state["U"]
            return tuple(int(U.prev_fast_len(n)) for n in a) + tuple(int(U.next_fast_len(n)) for n in a)

        def same(x, y):
            return x == y
    elif name == "real_to_complex":
        def call(z, a):
            x = np.asarray(z.data).real.astype(np.float64 if z.data.dtype.itemsize > 8 or z.data.dtype == np.float64 else np.float32)
            x = np.stack([x] * 4, axis=1) if x.ndim == 1 else x
            out = [pb.utils.real_to_complex(x, axis=0) for _ in range(5)]
            return tuple(o.tobytes() for o in out), out[0].shape, str(out[0].dtype)

        def same(x, y):
            return x == y
    elif name == "phase_strings":
        def call(z, a):
            v = np.asarray(z.data).real.ravel()[:64].astype(np.float64)
            ph = pb.Phase(np.rint(v * 1e11), v - np.rint(v))
            return tuple(str(t) for t in ph.to_string(precision=24)), tuple(format(ph[i], ".20f") for i in range(4)), str(ph[0])

        def same(x, y):
            return x == y
    elif name == "labels":
        def call(z, a):
            return _labels_task(z, 200)

        def same(x, y):
            return x[0][0].tobytes() == y[0][0].tobytes() and x[0][1].tobytes() == y[0][1].tobytes() and x[1] == 0 and y[1] == 0
    else:
        op = C.OPS[name]

        def call(z, a):
            r = op.run(pb, z, copy.deepcopy(a))
            lab = None if not hasattr(r, "channel_freqs") else np.asarray(r.channel_freqs.value).tobytes()
            return np.asarray(r.data).tobytes(), r.shape, str(r.data.dtype), lab, None if r.start_time is None else (r.start_time.jd1, r.start_time.jd2)

        def same(x, y):
            return x == y

    try:
        if name == "fast_len_calls":
            seq = [tuple(O.prev_smooth(n) for n in c["args"]) + tuple(O.next_smooth(n) for n in c["args"]) for c in case["calls"]]
        else:
            seq = [call(z, c["args"]) for z, c in zip(sigs, case["calls"])]
    except Exception:
        stt.label("skip_reference_call_raises")
        return
    tasks = [dask.delayed(call, pure=False)(z, c["args"]) for z, c in zip(sigs, case["calls"])]
    from concurrent.futures import ThreadPoolExecutor

    for rnd in range(3):
        if fresh is not None:
            fresh()
        with lib("%s as %d concurrent tasks (threaded scheduler)" % (name, len(tasks))):
            if rnd < 2:
                outs = dask.compute(*tasks, scheduler="threads", num_workers=8)
            else:
                # plain worker threads as well (Dask hands its workers a copy of the caller's context variables; a bare thread starts from scratch)
                with ThreadPoolExecutor(8) as ex:
                    outs = list(ex.map(lambda zc: call(zc[0], zc[1]["args"]), zip(sigs, case["calls"])))
        for i, (o, e) in enumerate(zip(outs, seq)):
            check(same(o, e), "{}: call {} of {} run as concurrent tasks under the threaded scheduler differs from the same call run alone (round {})",
                  name, i, len(tasks), rnd)
    stt.nt()
    stt.label("op_" + name)


SUBS = [
    Sub("catalogue", dask_case(), run_dask,
        "operation catalogue (slices, Stokes/trailing selection, time_shift +-crop, freq_shift, snippet, fast_len, concatenate time/freq, "
        "coherent/incoherent dedispersion, polarisation conversions, to_intensity, stft/istft, ufunc expressions, signal_transform, like, "
        "compute/persist/to_dask_array/rechunk) x generated signal x chunk layout per axis (whole / size-1 / 2-3 uneven chunks; time axis whole "
        "for most FFT cases) x synchronous/threaded scheduler; class, metadata, shape, dtype, values vs the NumPy twin; lazy and Dask-backed; "
        "non-trivial = at least one axis split into >= 2 chunks", quick=1500, thorough=30000, pieces_quick=6),
    Sub("process_scheduler", dask_case(), run_dask_proc,
        "the same catalogue under the multiprocess scheduler (few cases: each compute spawns workers); non-trivial as above", quick=6, thorough=200,
        pieces_quick=1, pieces_thorough=1, budget_quick=60),
    Sub("joint_compute", joint_case(), run_joint,
        "2..3 results of the same operation with different arguments, built on one (or separate) Dask inputs and computed in ONE dask.compute "
        "call, each compared with its own NumPy-backed result (task-key collisions, shared intermediate tasks); non-trivial = arguments differ",
        quick=500, thorough=10000, pieces_quick=4),
]
SUBS.append(Sub("threaded_delayed_calls", threads_case(), run_threads,
                "4..8 calls of one operation (freq/time shift, coherent/incoherent dedispersion, Stokes/basis conversion, ufunc expression, snippet, "
                "stft, real_to_complex, Phase string rendering, next/prev_fast_len with one length far beyond any seen before, channel labels read 200 times) on equally shaped NumPy signals of 3001..8192 samples (labels: 256..4096 channels), run as "
                "dask.delayed tasks of one graph under the threaded scheduler with 8 workers, 3 rounds, each result bit-identical to the same call "
                "run alone (third round: plain worker threads instead of Dask's; fast-length calls start from a fresh module state); all non-trivial", quick=60, thorough=800, pieces_quick=3, pieces_thorough=8))
SUBS[1].in_parent = True  # the multiprocess scheduler cannot be started from a daemonic pool worker

"""C12 -- snippet returns exactly n samples starting exactly at the requested time."""

import math
from fractions import Fraction as F

import numpy as np
import astropy.units as u
from hypothesis import strategies as st

from ..core import Sub, check, lib, must_raise
from .. import oracle as O, gen as G
from ..contract import contract, same_meta, assert_start, bits_equal, rate_hz

EPS = 2.220446049250313e-16
ASSUMPTIONS = [
    "fractional requests: reference = band-limited (DFT) interpolation x(t+k) from the longdouble DFT matrix, bins as numpy.fft.fftfreq; "
    "tolerance 2e-6*(1+log2 N)*max|x| for single-precision samples, 1e-12*(1+log2 N)*max|x| for double-precision and integer samples",
    "a request given as duration or Time is converted to samples by the check with the same public astropy arithmetic; it counts as a "
    "whole-sample request when within the resolution of Time (2 eps day * rate) resp. float rounding (8 eps |t|) of one -- requests within "
    "4x that band of the snapping boundary are skipped as ambiguous",
]
FLOATS = ["f4", "f8", "c8", "c16"]


@st.composite
def snip_case(draw):
    # (integer samples are admitted by Signal / RadioSignal: a fractional request must then give interpolated -- floating -- values)
    spec = draw(G.signal_spec(nmin=1, nmax=128, dtypes=FLOATS + ["i8"], nchan_max=3, max_trailing=1, data_kinds=("noise", "index", "tone")))
    N = spec["n"]
    n = draw(st.one_of(st.integers(0, N), st.sampled_from([0, N, 1, max(0, N - 1)])))
    forms = ["int", "float", "dur", "dt", "qsamp", "npint", "npfloat", "arr0", "timedelta", "dur_sub"] + (["time"] if spec["t0"] else [])
    form = draw(st.sampled_from(forms))
    i = draw(st.one_of(st.integers(0, N - n), st.just(N - n), st.just(0)))
    frac = 0
    if n < N - i and draw(st.booleans()):
        frac = draw(st.integers(1, 1023))
    tiny = 0.0
    if n < N - i and form in ("float", "int") and draw(st.integers(0, 9)) == 0:
        tiny = draw(st.sampled_from([1e-9, 1e-12, 3e-9, 1e-7]))  # a start a hair after a whole sample
    return {"sig": spec, "form": form, "i": i, "frac": frac, "n": n, "dur_unit": draw(st.sampled_from(["s", "ms", "us", "ns", "min"])), "tiny": tiny,
            "ik": draw(st.sampled_from(["int64", "int8", "uint8", "int16", "uint32", "uint64", "intp"]))}


def to_arg(case, z):
    """-> (argument, effective t in samples as Fraction or None if ambiguous, whole: bool)"""
    t = F(case["i"]) + (F(*case["fracq"]) if case.get("fracq") else F(case["frac"], 1024))
    form = case["form"]
    rate = rate_hz(z)
    if form in ("npint", "npfloat", "arr0"):
        # NumPy scalars / 0-d arrays are numbers too
        if case["frac"] == 0 and form == "npint":
            ik = case.get("ik", "int64")
            return getattr(np, ik if int(t) <= np.iinfo(ik).max else "int64")(int(t)), t, True
        v = float(t)
        return (np.float64(v) if form != "arr0" else np.array(v)), t, case["frac"] == 0
    if case.get("tiny") and form in ("int", "float"):
        tf = float(t) + case["tiny"]
        return tf, F(tf), tf == int(tf)
    if form == "int":
        if case["frac"]:
            form = "float"
        else:
            return int(t), t, True
    if form == "float":
        return float(t), t, case["frac"] == 0
    if form == "qsamp":
        q = float(t) * u.dimensionless_unscaled
        return q, t, case["frac"] == 0  # dimensionless Quantity: samples? -> handled below (see run)
    if form in ("dur", "dt", "timedelta", "dur_sub"):
        if form == "dur_sub" and case["frac"] == 0:
            # "the last len - t samples": the duration is what is left of the signal's length (a whole number of samples, up to the rounding
            # of a subtraction of two durations of the size of the signal)
            q = z.time_length - (len(z) - int(t)) * z.dt
        else:
            q = (float(t) / z.sample_rate).to(O.unit(case["dur_unit"])) if form == "dur" else float(t) * z.dt
        teff = (q * z.sample_rate).to_value(u.one)
        tol = 8 * EPS * max(abs(teff), len(z))
        if form == "timedelta":
            from astropy.time import TimeDelta

            q = TimeDelta(q.to(u.s))  # what `t1 - z.start_time` gives: a duration, too
            teff = (q.to(u.s) * z.sample_rate).to_value(u.one)
    else:
        tobj = z.start_time + float(t) / z.sample_rate
        teff = ((tobj - z.start_time).to(u.s) * z.sample_rate).to_value(u.one)
        tol = max(float((2 * EPS * u.day * z.sample_rate).to_value(u.one)), 8 * EPS * abs(teff))
        q = tobj
    d = abs(teff - round(teff))
    if d <= tol:
        return q, F(round(teff)), True
    if d <= 4 * tol:
        return q, None, False
    return q, F(float(teff)), False


def interp_fft(x, t, n):
    """same interpolation for long signals: numpy.fft in complex128"""
    N = x.shape[0]
    X = np.fft.fft(x.astype(np.complex128), axis=0)
    k = O.fftfreq_int(N).astype(np.float64)
    fr = float(t - int(t))
    ph = np.exp(2j * np.pi * ((k * fr / N) % 1.0)).reshape((N,) + (1,) * (x.ndim - 1))
    y = np.fft.ifft(X * ph, axis=0)[int(t) : int(t) + n]
    return y if np.iscomplexobj(x) else y.real


def interp(x, t, n):
    """band-limited value of x (N, ...) at t + k, k = 0..n-1 (t Fraction)"""
    N = x.shape[0]
    X = O.dft(x, axis=0)
    k = O.fftfreq_int(N).astype(O.LD)
    pos = np.array([float(t + j) for j in range(n)], dtype=O.LD)
    ph = O.cis_cycles_ld(np.outer(pos, k) / O.LD(N))  # (n, N)
    y = np.tensordot(ph, X, axes=(1, 0)) / O.LD(N)
    return y if np.iscomplexobj(x) else y.real


def run_snip(case, stt):
    import pulsarbat as pb

    spec = case["sig"]
    z = G.build(spec)
    x = z.data.copy()
    N, n = spec["n"], case["n"]
    if case["form"] == "qsamp":
        # a dimensionless Quantity is not one of the three documented forms: not exercised
        case = dict(case, form="float")
    arg, teff, whole = to_arg(case, z)
    if teff is None:
        stt.label("skip_ambiguous_snap")
        return
    if teff < 0 or teff + n > N:
        stt.label("skip_rounded_out_of_range")
        return
    n_arg = np.int64(n) if case["form"] in ("npint", "npfloat") else n
    strict = (case["i"] + 2 * case["n"] + len(case["form"])) % 3 == 0 and bool(np.all(np.isfinite(x)))
    with lib("snippet" + (" under np.errstate(all='raise') with RuntimeWarnings as errors" if strict else "")):
        if strict:
            # a valid request on finite data gives no floating-point error or warning: it works the same whatever the caller's error state
            import warnings

            with np.errstate(all="raise"), warnings.catch_warnings():
                warnings.simplefilter("error", RuntimeWarning)
                y = pb.snippet(z, arg, n_arg)
            stt.label("strict_fp_state")
        else:
            y = pb.snippet(z, arg, n_arg)
    contract(y, "snippet")
    check(len(y) == n, "snippet returned {} samples, requested {}", len(y), n)
    check(type(y) is type(z) and y.shape[1:] == z.shape[1:], "type/sample shape changed")
    if x.dtype.kind in "iu" and not whole and abs(teff - round(teff)) <= F(1, 10**8):
        pass  # time_shift documents shifts up to 1e-8 sample as no shift: the samples may come back as they are
    elif x.dtype.kind in "iu" and not whole:
        check(y.data.dtype.kind == "f", "fractional request on integer samples returned dtype {} (interpolated values are not integers)", y.data.dtype)
    else:
        check(y.data.dtype == x.dtype, "dtype changed: {} -> {}", x.dtype, y.data.dtype)
    same_meta(y, z, "snippet: ")
    rate = rate_hz(z)
    if n > 0 or True:
        T0 = None if z.start_time is None else O.T(z.start_time) + teff / rate
        if n > 0:
            # two library Time operations (start - shift*dt, then the slice's start + i*dt); for a Time argument teff itself is measured
            # with one more Time subtraction (each in UTC goes through TAI and back)
            assert_start(y, T0, k=4 if case["form"] == "time" else 2, offset_s=teff / rate, what="snippet: ")
        else:
            check((y.start_time is None) == (z.start_time is None), "start_time presence changed")
    if whole:
        i = int(teff)
        check(bits_equal(np.asarray(y.data), x[i : i + n]), "whole-sample request t={} is not exactly z[t:t+n]", i)
    elif n > 0:
        ref = interp(x, teff, n) if N <= 256 else interp_fft(x, teff, n)
        scale = float(np.max(np.abs(x)))
        single = x.dtype.itemsize <= (8 if np.iscomplexobj(x) else 4) and x.dtype.kind in "fc"
        tol = (2e-6 if single else 1e-12) * (1 + math.log2(max(N, 2))) * scale
        if abs(teff - round(teff)) <= F(1, 10**8):
            tol += 4e-8 * scale  # (time_shift documents shifts of up to 1e-8 sample as no shift at all)
        err = float(np.max(np.abs(np.asarray(y.data) - ref)))
        check(err <= tol, "fractional request t={}: samples differ from the band-limited interpolation by {:.3g} (tol {:.3g}, N={})", float(teff), err, tol, N)
    stt.nt((not whole) or teff + n == N or n in (0, N) or case["form"] in ("dur", "dt", "time"))
    stt.label("form_" + case["form"])
    stt.label("whole" if whole else "fractional")
    stt.label("ends_at_last_sample" if teff + n == N else "inside")
    stt.label("dtype_" + spec["dtype"])
    stt.label("N_odd" if N % 2 else "N_even")
    stt.label("rate_unit_" + spec["sr"]["u"])


@st.composite
def hist_case(draw):
    base = draw(snip_case())
    steps = [draw(st.sampled_from(["same", "n", "frac", "form", "rate", "data", "dtype"])) for _ in range(draw(st.integers(1, 4)))]
    return {"base": base, "steps": steps, "pick": draw(st.integers(0, 10**6)), "one_object": draw(st.sampled_from([False, True, "refusals"]))}


def run_hist(case, stt):
    import copy

    cur = copy.deepcopy(case["base"])
    one = G.OneObject(case.get("one_object", False), cur["sig"])
    one.run(run_snip, cur, stt)
    k = case["pick"]
    for i, step in enumerate(case["steps"]):
        cur = copy.deepcopy(cur)
        sg = cur["sig"]
        N = sg["n"]
        if step == "n":
            cur["n"] = (cur["n"] + 1 + (k + i) % 3) % (N - cur["i"] + 1)
            if cur["n"] >= N - cur["i"]:
                cur["frac"] = 0
                cur["tiny"] = 0.0
        elif step == "frac":
            cur["frac"] = [0, 512, 1, 777][(k + i) % 4] if cur["n"] < N - cur["i"] else 0
        elif step == "form":
            cur["form"] = ["int", "float", "dur", "dt"][(k + i) % 4]
        elif step == "rate":
            sg["sr"] = dict(sg["sr"], v=sg["sr"]["v"] * [2.0, 0.5, 3.0][(k + i) % 3])
        elif step == "data":
            sg["data"] = {"kind": "noise", "seed": (k + i) % 997}
        elif step == "dtype":
            allowed = [d for d in G.CLASS_DTYPES[sg["cls"]] if d in FLOATS]
            sg["dtype"] = allowed[(k + i) % len(allowed)]
        one.run(run_snip, cur, stt)
        stt.label("hist_" + step)
    stt.label("one_object_reassigned" if one.reused > 1 else "fresh_objects")
    stt.nt(len(case["steps"]) >= 2)


@st.composite
def long_case(draw):
    N = draw(st.sampled_from([1500, 2048, 3001, 4096, 5000, 5000, 65537, 131072, 200000]))
    spec = draw(G.signal_spec(classes=["Signal", "BasebandSignal", "IntensitySignal"], nmin=N, nmax=N, dtypes=FLOATS, nchan_max=2, max_trailing=0,
                              data_kinds=("noise",)))
    spec["n"] = N
    n = draw(st.sampled_from([1, 8, 16, 32, 100, N // 2]))
    i = draw(st.integers(0, N - n - 1))
    out = {"sig": spec, "form": draw(st.sampled_from(["float", "float", "dur", "time" if spec["t0"] else "float"])), "i": i,
           "frac": draw(st.sampled_from([256, 512, 1, 1023, 0, 333])), "n": n, "dur_unit": "s"}
    if N > 10000:
        # far into a long signal, a start a small fraction of a sample after a whole one (a snapping radius that grows with t would swallow it)
        out["i"] = draw(st.integers(min(N // 2, N - n - 1), N - n - 1))
        out["fracq"] = draw(st.sampled_from([[1, 2**14], [1, 2**14], [3, 50000], [1, 10**5], [1, 2**12], [1, 2]]))
        out["frac"] = 1
    return out


@st.composite
def bad_case(draw):
    spec = draw(G.signal_spec(nmin=1, nmax=32, dtypes=FLOATS, nchan_max=2, max_trailing=1))
    N = spec["n"]
    kind = draw(st.sampled_from(["neg_t", "past_end", "neg_n", "time_nostart", "past_end_frac", "neg_t_dur", "past_end_time", "past_end_narrow", "past_end_narrow",
                                 "neg_t_frac", "neg_t_frac",
                                 "inf_t", "inf_dur", "neg_inf_t", "neg_inf_dur"]))
    out = {"sig": spec, "kind": kind, "n": draw(st.integers(0, N)), "k": draw(st.integers(1, 5)), "f": draw(st.integers(1, 1023))}
    if kind == "past_end_narrow":
        # t as a narrow NumPy integer: t + n must not wrap around in t's own width
        ik = draw(st.sampled_from(["uint8", "int8", "uint8", "int16", "uint16"]))
        top = {"uint8": 255, "int8": 127, "int16": 32767, "uint16": 65535}[ik]
        N2 = draw(st.integers(40, 300))
        t = draw(st.integers(0, min(N2, top)))
        lo = max(N2 - t + 1, top - t + 1)
        n = draw(st.one_of(st.integers(N2 - t + 1, N2 + 300), st.integers(lo, lo + 40)))
        out.update(sig=dict(spec, n=N2), ik=ik, t=t, n=n, n_np=draw(st.booleans()))
    return out


def run_bad(case, stt):
    import pulsarbat as pb

    spec = dict(case["sig"])
    kind = case["kind"]
    if kind == "time_nostart":
        spec["t0"] = None
    if kind == "past_end_time" and not spec["t0"]:
        kind = "past_end"
    z = G.build(spec)
    N, n, k = spec["n"], case["n"], case["k"]
    if kind == "neg_t":
        f = lambda: pb.snippet(z, -k, n)  # noqa
    elif kind == "neg_t_frac":
        # between the sample before the first and the first: still before the signal (in each form)
        tneg = -[0.5, 0.25, 0.75, 1e-3, 0.999, 1e-6][k % 6] if case["f"] % 2 else -case["f"] / 1024
        nn = min(n, max(N - 1, 0))
        how = case["f"] % 3
        if how == 1 or (how == 2 and (z.start_time is None or abs(tneg) / rate_hz(z) < 1e-9)):  # (a Time resolves ~40 ps: closer is the same instant)
            f = lambda: pb.snippet(z, (tneg / z.sample_rate).to(u.s), nn)  # noqa
        elif how == 2:
            f = lambda: pb.snippet(z, z.start_time + tneg / z.sample_rate, nn)  # noqa
        else:
            f = lambda: pb.snippet(z, tneg, nn)  # noqa
    elif kind == "neg_t_dur":
        f = lambda: pb.snippet(z, (-k / z.sample_rate).to(u.s), n)  # noqa
    elif kind == "past_end":
        f = lambda: pb.snippet(z, N - n + k, n)  # noqa
    elif kind == "past_end_frac":
        f = lambda: pb.snippet(z, N - n + case["f"] / 1024, n)  # noqa
    elif kind == "past_end_time":
        f = lambda: pb.snippet(z, z.start_time + ((N - n + k) / z.sample_rate), n)  # noqa
    elif kind == "neg_n":
        f = lambda: pb.snippet(z, 0, -k)  # noqa
    elif kind == "past_end_narrow":
        tt = getattr(np, case["ik"])(case["t"])
        nn = getattr(np, case["ik"])(n) if case["n_np"] and n <= np.iinfo(case["ik"]).max else n
        assert int(tt) + int(nn) > N and int(tt) >= 0
        f = lambda: pb.snippet(z, tt, nn)  # noqa
        stt.label("narrow_sum_wraps" if int(tt) + int(nn) > np.iinfo(case["ik"]).max else "narrow_sum_fits")
    elif kind in ("inf_t", "neg_inf_t"):
        f = lambda: pb.snippet(z, math.inf if kind == "inf_t" else -math.inf, n)  # noqa
    elif kind in ("inf_dur", "neg_inf_dur"):
        f = lambda: pb.snippet(z, (math.inf if kind == "inf_dur" else -math.inf) * u.s, n)  # noqa
    else:
        f = lambda: pb.snippet(z, G.mk_time({"mjd": 58000, "frac": 0.5}), n)  # noqa
    must_raise("snippet " + kind, f, (ValueError,))
    stt.nt()
    stt.label(kind)


SUBS = [
    Sub("snippet", snip_case(), run_snip,
        "every class, N 1..128, f4/f8/c8/c16, with/without start time, rates mHz..GHz in every unit; t as int / float (whole or k/1024 "
        "fractional) / duration in s..min / k*dt / absolute Time; n 0..N incl. requests ending at the last sample; non-trivial = fractional t, "
        "or t+n == N, or n in {0, N}, or a duration/Time form", quick=4000, thorough=80000, pieces_quick=6),
    Sub("call_history", hist_case(), run_hist,
        "2..5 snippet calls in one process, one ingredient changed per step (or none); each checked as above; half of the histories run on ONE signal object re-assigned through its setters / in-place ufuncs between the calls, the others on fresh signals; non-trivial = >= 2 steps", quick=500,
        thorough=8000, pieces_quick=4),
    Sub("long_signals", long_case(), run_snip,
        "N in {1500..5000}, short and long snippets anywhere in the signal, fractional starts (numpy.fft complex128 interpolation of the WHOLE "
        "signal as reference); non-trivial as above", quick=300, thorough=5000, pieces_quick=4),
    Sub("refusals", bad_case(), run_bad, "t < 0, t+n > len (whole, fractional, as Time, as a narrow NumPy integer whose sum with n would wrap, +-infinity as number or duration), negative n, Time without start time -> ValueError", quick=300,
        thorough=4000),
]

"""C03 -- time_shift is a band-limited delay with exact zero-fill and no wrap-around."""

import math
from fractions import Fraction as F

import numpy as np
import astropy.units as u
from hypothesis import strategies as st

from ..core import Sub, check, lib, must_raise
from .. import oracle as O, gen as G
from ..contract import contract, same_meta, same_start, assert_start, bits_equal, rate_hz

ASSUMPTIONS = [
    "reference = explicit longdouble DFT matrix (N <= 128) or numpy.fft in complex128 (large-N sub-check); bins follow numpy.fft.fftfreq",
    "data tolerance 2e-6*(1+log2 N)*max|x| for single-precision data (complex64 ramp and transforms, 6e-8 per bin) and 2e-15*(8+|s|)*(1+log2 N)*max|x| for double-precision data",
    "non-zero shifts are >= 2^-20 samples in magnitude: |shift| <= 1e-8 is the documented allclose 'no shift' fast path",
    "shifts given as time Quantities come back as samples through float conversions: when within 1e-9 relative of a whole "
    "sample the single boundary sample is unconstrained (either neighbour of the ceiling is accepted)",
]

CLASSES = ["Signal", "Signal", "RadioSignal", "IntensitySignal", "BasebandSignal", "DualPolarizationSignal", "FullStokesSignal"]
FLOATS = ["f4", "f8", "c8", "c16"]


def shift_value(N):
    big = max(N, 1)
    ints = st.integers(-big - 3, big + 3).map(float)
    small = st.integers(-4, 4).map(float)
    fr = st.tuples(st.integers(-big - 1, big + 1), st.integers(1, 2**20 - 1)).map(lambda t: t[0] + t[1] / 2**20)
    fr_small = st.tuples(st.integers(-3, 2), st.integers(1, 2**20 - 1)).map(lambda t: t[0] + t[1] / 2**20)
    # (shifts far beyond the signal, also beyond 2^31 and 2^32 samples: an hour at MHz rates -- everything is zero-filled)
    huge = st.sampled_from([2.0**31, -(2.0**31), 2.0**31 + 5.5, 3e9, -3e9, 2.0**32 + 5, -(2.0**32) - 0.25, 1e12, 2.0**53])
    return st.one_of(small, ints, fr, fr_small, st.just(0.0), st.just(-0.0), small, ints, fr, huge)


@st.composite
def shift_spec(draw, N, ss, forms=("int", "float", "arr0", "time", "arr", "arr", "arr_time", "list", "npfloat32", "npint")):
    form = draw(st.sampled_from(list(forms)))
    val = shift_value(N)
    if form == "int":
        return {"form": form, "vals": int(draw(st.integers(-N - 3, N + 3)))}
    if form == "npint":
        return {"form": form, "vals": int(draw(st.integers(-N - 3, N + 3)))}
    if form == "npfloat32":
        return {"form": form, "vals": float(np.float32(draw(val)))}
    if form in ("float", "arr0", "time") or not ss:
        if form in ("arr", "arr_time", "list"):
            form = "arr0"
        return {"form": form, "vals": draw(val)}
    k = draw(st.integers(1, len(ss)))
    shp = [d if draw(st.booleans()) else 1 for d in ss[:k]]
    n = int(np.prod(shp))
    flat = draw(st.lists(val, min_size=n, max_size=n))
    return {"form": form, "vals": np.array(flat, dtype=float).reshape(shp).tolist()}


@st.composite
def ts_case(draw, nmax=64):
    spec = draw(G.signal_spec(classes=CLASSES, nmin=1, nmax=nmax, dtypes=FLOATS, nchan_max=3, max_trailing=2,
                              data_kinds=("noise", "noise", "tone", "impulse"), with_meta=True))
    sh = draw(shift_spec(spec["n"], spec["sshape"]))
    return {"sig": spec, "shift": sh, "crop_also": draw(st.booleans())}


def mk_shift_arg(sh, z):
    """-> (argument passed to the library, effective shift in samples as float64 array, fuzz flag)"""
    vals = np.array(sh["vals"], dtype=np.float64)
    form = sh["form"]
    if form == "int":
        return int(sh["vals"]), vals, False
    if form == "float":
        return float(sh["vals"]), vals, False
    if form in ("arr0", "arr"):
        return vals, vals, False
    if form == "list":
        return vals.tolist(), vals, False  # "array-like"
    if form == "npint":
        return np.int64(sh["vals"]), vals, False
    if form == "npfloat32":
        return np.float32(sh["vals"]), vals, False
    # time forms
    q = (vals / z.sample_rate).to(u.s)
    eff = np.asarray((q * z.sample_rate).to_value(u.one), dtype=np.float64)
    # a time that is a whole number of samples comes back as k +- rounding after the unit conversions (1.1 ms x 50 kHz =
    # 55.00000000000001): within 8 eps of a whole number it IS that whole number of samples (the rule of snippet and freq_shift), so exactly
    # k edge samples are zero; anything farther off is the fractional shift it says it is
    whole = np.round(eff)
    near = np.abs(eff - whole) <= 8 * 2.220446049250313e-16 * np.abs(eff)
    return q, np.where(near, whole, eff), False


def reference(x, eff, use_ld=True):
    """DFT shift-theorem delay of x (N, *ss) by eff (broadcast against ss from the left), no zero fill."""
    N = x.shape[0]
    ss = x.shape[1:]
    e = np.asarray(eff, dtype=np.float64)
    e = e.reshape(e.shape + (1,) * (len(ss) - e.ndim))
    sb = np.broadcast_to(e, ss)
    k = O.fftfreq_int(N)
    if use_ld:
        X = O.dft(x, axis=0)
        ph = O.cis_cycles_ld(-(k.reshape((N,) + (1,) * len(ss)).astype(O.LD) * sb[None].astype(O.LD)) / O.LD(N))
        y = O.idft(X * ph, axis=0)
    else:
        X = np.fft.fft(x.astype(np.complex128), axis=0)
        cyc = -(k.reshape((N,) + (1,) * len(ss)) * sb[None]) / N
        cyc = cyc - np.rint(cyc)
        y = np.fft.ifft(X * np.exp(2j * np.pi * cyc), axis=0)
    return y, sb


def zero_bounds(s, fuzz):
    """(must_zero_lo, maybe_lo), counts from the start for s>0 / from the end for s<0"""
    d = 1e-9 * max(1.0, abs(s)) if fuzz else 0.0
    a = abs(s)
    lo = int(math.ceil(a - d)) if a - d > 0 else 0
    hi = int(math.ceil(a + d))
    return lo, hi


def check_shift(z, x, y, eff, fuzz, use_ld, what="time_shift"):
    N = x.shape[0]
    ss = x.shape[1:]
    contract(y, what)
    check(type(y) is type(z), "{}: type changed to {}", what, type(y).__name__)
    check(y.data.dtype == x.dtype, "{}: dtype {} -> {}", what, x.dtype, y.data.dtype)
    check(y.shape == x.shape, "{}: shape {} -> {}", what, x.shape, y.shape)
    same_meta(y, z, what + ": ")
    same_start(y, z, what + ": ")
    ref, sb = reference(x, eff, use_ld)
    if not np.iscomplexobj(x):
        ref = ref.real
    out = np.asarray(y.data)
    scale = float(np.max(np.abs(x))) if x.size else 0.0
    # single-precision data: the ramp and both transforms are complex64 (6e-8 per bin); double-precision data: complex128 throughout, and the
    # ramp's argument 2 pi s f carries eps * |s| of rounding
    smax = float(np.max(np.abs(sb))) if np.size(sb) else 0.0
    tol = (2e-6 if x.dtype.itemsize <= (8 if np.iscomplexobj(x) else 4) else 2e-15 * (8 + min(smax, 4 * N))) * (1 + math.log2(max(N, 2))) * scale
    worst = 0.0
    for ix in np.ndindex(ss):
        s = float(sb[ix])
        col = out[(slice(None),) + ix]
        rcol = np.asarray(ref[(slice(None),) + ix])
        lo, hi = zero_bounds(s, fuzz)
        lo, hi = min(lo, N), min(hi, N)
        if s > 0:
            zreg, free, rest = slice(0, lo), slice(lo, hi), slice(hi, N)
        elif s < 0:
            zreg, free, rest = slice(N - lo, N), slice(N - hi, N - lo), slice(0, N - hi)
        else:
            zreg, free, rest = slice(0, 0), slice(0, 0), slice(0, N)
        zr = col[zreg]
        check(zr.size == 0 or not np.any(zr != 0),
              "{}: element {} shifted by {}: {} of the {} samples whose source lies outside the input are not exactly zero",
              what, ix, s, int(np.count_nonzero(zr)), zr.size)
        err = np.max(np.abs(col[rest] - rcol[rest].astype(np.complex128 if np.iscomplexobj(x) else np.float64))) if col[rest].size else 0.0
        worst = max(worst, float(err))
        check(err <= tol, "{}: element {} shifted by {}: differs from the DFT shift-theorem delay by {:.3g} (tol {:.3g}, N={})",
              what, ix, s, float(err), tol, N)
        if s == int(s) and abs(s) < N:
            si = int(s)
            moved = x[(slice(None),) + ix]
            exp = moved[: N - si] if si >= 0 else moved[-si:]
            got = col[si:] if si >= 0 else col[: N + si]
            e2 = np.max(np.abs(got - exp)) if got.size else 0.0
            check(e2 <= tol, "{}: element {}: integer shift {} did not move the samples (max error {:.3g})", what, ix, si, float(e2))
    return sb, worst


def run_ts(case, stt, use_ld=True):
    import pulsarbat as pb

    spec = case["sig"]
    z = G.build(spec)
    x = z.data.copy()
    N = spec["n"]
    arg, eff, fuzz = mk_shift_arg(case["shift"], z)
    with lib("time_shift"):
        y = pb.time_shift(z, arg)
    sb, _ = check_shift(z, x, y, eff, fuzz, use_ld)
    ssz = int(np.prod(spec["sshape"])) if spec["sshape"] else 1
    effshape = np.shape(eff)
    stt.nt((ssz > 1 and tuple(effshape) != tuple(spec["sshape"])) or bool(np.any(np.abs(sb) >= N))
           or (np.any(sb > 0) and np.any(sb < 0)))
    stt.label("form_" + case["shift"]["form"])
    stt.label("dtype_" + spec["dtype"])
    stt.label("N_odd" if N % 2 else "N_even")
    stt.label("broadcast" if ssz > 1 and tuple(effshape) != tuple(spec["sshape"]) else "full_or_scalar")
    if case.get("crop_also"):
        with lib("time_shift(crop=True)"):
            yc = pb.time_shift(z, arg, crop=True)
        contract(yc, "time_shift(crop=True)")
        if np.allclose(eff, 0):
            a, b = 0, N
        else:
            mx, mn = float(np.max(eff)), float(np.min(eff))
            a = max(0, int(math.ceil(mx)))
            b = N + min(0, int(math.floor(mn)))
            if fuzz and (abs(mx - round(mx)) < 1e-9 * max(1, abs(mx)) or abs(mn - round(mn)) < 1e-9 * max(1, abs(mn))):
                stt.label("crop_ambiguous_skipped")
                return
        a = min(a, N)
        keep = slice(a, max(a, b))
        check(len(yc) == len(range(*keep.indices(N))), "crop=True kept {} samples, expected exactly [{}:{}] = {}", len(yc), a, max(a, b),
              len(range(*keep.indices(N))))
        check(bits_equal(np.asarray(yc.data), np.asarray(y.data)[keep]), "crop=True is not the crop=False result with the edge samples removed")
        same_meta(yc, z, "crop=True: ")
        if len(yc) > 0:
            T0 = None if z.start_time is None else O.T(z.start_time) + a / rate_hz(z)
            assert_start(yc, T0, k=1, offset_s=a / rate_hz(z), what="crop=True: ")
        stt.label("crop_checked")


# -- errors -----------------------------------------------------------------------------------------


def run_big(case, stt):
    run_ts(case, stt, use_ld=False)
    v = abs(case["shift"]["vals"])
    stt.nt(v >= 500 and v != int(v))


@st.composite
def big_case(draw):
    n = draw(st.sampled_from([1000, 1024, 2048, 3001, 4096, 6075, 8192]))
    spec = draw(G.signal_spec(classes=["Signal", "BasebandSignal"], nmin=n, nmax=n, dtypes=FLOATS, nchan_max=2, max_trailing=0,
                              data_kinds=("noise", "tone"), sr=G.freq_q(0, 7)))
    spec["n"] = n
    # large shifts with a small fractional part, as numbers and as time quantities
    base = draw(st.integers(-n + 1, n - 1))
    frac = draw(st.sampled_from([0.0, 0.02, 0.5, 1e-3, 0.25, 2.0**-10]))
    sh = {"form": draw(st.sampled_from(["float", "time", "arr0"])), "vals": float(base + frac)}
    if spec["data"]["kind"] == "tone":
        spec["data"]["k"] = draw(st.integers(-(n // 2), (n - 1) // 2))
    return {"sig": spec, "shift": sh, "crop_also": draw(st.booleans())}


# -- histories: the same call repeated with exactly one ingredient changed (hidden state / caches) ---------


@st.composite
def hist_case(draw):
    base = draw(ts_case(nmax=24))
    steps = []
    for _ in range(draw(st.integers(1, 4))):
        kind = draw(st.sampled_from(["rate", "data", "shift", "dtype", "same", "form"]))
        steps.append([kind, draw(st.sampled_from([2.0, 0.5, 4.0, 3.0, -1.0])), draw(st.integers(0, 2**31 - 1))])
    return {"base": base, "steps": steps, "one_object": draw(st.sampled_from([False, True, "refusals"]))}


def run_hist(case, stt):
    import copy

    cur = copy.deepcopy(case["base"])
    one = G.OneObject(case.get("one_object", False), cur["sig"])
    one.run(run_ts, cur, stt)
    for kind, fac, seed in case["steps"]:
        cur = copy.deepcopy(cur)
        if kind == "rate":
            cur["sig"]["sr"]["v"] *= abs(fac)
        elif kind == "data":
            cur["sig"]["data"] = {"kind": "noise", "seed": seed}
        elif kind == "shift":
            cur["shift"]["vals"] = (np.array(cur["shift"]["vals"], dtype=float) * fac).tolist()
            if cur["shift"]["form"] in ("int", "npint", "npfloat32"):
                cur["shift"]["form"] = "float"
        elif kind == "dtype":
            allowed = [d for d in G.CLASS_DTYPES[cur["sig"]["cls"]] if d in FLOATS]
            cur["sig"]["dtype"] = allowed[seed % len(allowed)]
        elif kind == "form":
            f = cur["shift"]["form"]
            cur["shift"]["form"] = {"float": "time", "time": "float", "arr": "arr_time", "arr_time": "arr", "arr0": "time",
                                    "int": "time", "list": "arr", "npint": "float", "npfloat32": "float"}[f]
        one.run(run_ts, cur, stt)
        stt.label("hist_" + kind)
    stt.label("one_object_reassigned" if one.reused > 1 else "fresh_objects")
    stt.nt(len(case["steps"]) >= 2)


@st.composite
def err_case(draw):
    spec = draw(G.signal_spec(classes=["Signal", "BasebandSignal"], nmin=2, nmax=16, dtypes=FLOATS, nchan_max=3, max_trailing=1))
    nd = 1 + len(spec["sshape"])
    shp = [1] * draw(st.integers(nd, nd + 1))
    return {"sig": spec, "shape": shp}


def run_err(case, stt):
    import pulsarbat as pb

    z = G.build(case["sig"])
    must_raise("time_shift with a shift of as many dimensions as the signal", lambda: pb.time_shift(z, np.ones(case["shape"])), (ValueError,))
    stt.nt()


SUBS = [
    Sub("shift_vs_dft", ts_case(), run_ts,
        "N 1..64, f4/f8/c8/c16, sample shapes of rank 0..4, shift as int/float/0-d/time/array (full, lower-rank, length-1 axes), values "
        "integer/fractional/0/|s|>=N/mixed signs; non-trivial = (sample size > 1 and shift shape != sample shape) or |s| >= N or mixed signs",
        quick=6000, thorough=100000, pieces_quick=6),
    Sub("large_N", big_case(), run_big,
        "N in {1000..8192}, large shifts with small fractional parts given as float / time Quantity, numpy.fft complex128 reference; "
        "non-trivial = |s| >= 500 samples with a non-zero fractional part", quick=300, thorough=3000),
    Sub("call_history", hist_case(), run_hist,
        "the same time_shift call repeated 2..5 times in one process with one ingredient changed per step (sample rate, data, shift "
        "value, dtype, numeric vs time form), each result checked against the DFT oracle; half of the histories run on ONE signal object re-assigned through its setters / in-place ufuncs between the calls, the others on fresh signals; non-trivial = >= 2 steps", quick=500,
        thorough=10000, pieces_quick=4),
    Sub("too_many_dims", err_case(), run_err, "shift.ndim >= signal.ndim must raise ValueError; every case non-trivial", quick=100, thorough=1000),
]

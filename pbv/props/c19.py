"""C19 -- real_to_complex is the exact analytic-baseband conversion along any axis."""

import math
import os
import tempfile

import numpy as np
import astropy.units as u
from hypothesis import strategies as st

from ..core import Sub, check, lib, must_raise
from .. import oracle as O, gen as G

ASSUMPTIONS = [
    "reference: O(N^2) longdouble evaluation of the definition -- DFT, analytic weights (1, 2, ..., 1 at Nyquist for even N), inverse DFT, "
    "multiplication by exp(-i pi n / 2), decimation by two",
    "tolerance 16 eps(compute precision) * (1 + log2 N) * sqrt(N) * max|x| (FFT rounding grows with the 2-norm of the data)",
]
DTYPES = ["f2", "f4", "f8", "i2", "i8", "u1", "b1"]


def reference(x, axis):
    """x real ndarray -> longdouble complex conversion along axis"""
    x = np.moveaxis(np.asarray(x).astype(O.LD), axis, 0)
    N = x.shape[0]
    if N == 0:
        return np.moveaxis(x.astype(O.CLD), 0, axis)
    X = O.dft(x, axis=0)
    h = np.zeros(N, dtype=O.LD)
    h[0] = 1
    for k in range(1, N):
        if 2 * k < N:
            h[k] = 2
        elif 2 * k == N:
            h[k] = 1
    a = O.idft(X * h.reshape((N,) + (1,) * (x.ndim - 1)), axis=0)
    n = np.arange(N)
    mix = O.cis_cycles_ld(-(n % 4) / O.LD(4))
    a = a * mix.reshape((N,) + (1,) * (x.ndim - 1))
    return np.moveaxis(a[::2], 0, axis)


@st.composite
def r2c_case(draw):
    rank = draw(st.integers(1, 3))
    axis = draw(st.integers(-rank, rank - 1))
    N = draw(st.one_of(st.integers(0, 130), st.integers(0, 12), st.sampled_from([6, 10, 126, 127, 128, 129, 130, 2, 1, 0, 3, 5, 62, 66])))
    shape = [draw(st.sampled_from([1, 2, 3, 1, 2, 3, 1, 2, 3, 0])) for _ in range(rank)]  # (another axis may be empty)
    shape[axis] = N
    dtype = draw(st.sampled_from(DTYPES))
    kind = draw(st.sampled_from(["noise", "noise", "tone", "impulse", "const"]))
    # every line along the axis is converted on its own: lines of very different amplitude side by side (decimal exponents per line)
    ncol = int(np.prod([d for i, d in enumerate(shape) if i != axis % rank]))
    colscale = None
    if dtype in ("f4", "f8") and ncol >= 2 and draw(st.integers(0, 3)) == 0:
        lo, hi = (-20, 25) if dtype == "f4" else (-150, 150)
        colscale = [draw(st.integers(lo, hi)) for _ in range(ncol)]
    return {"shape": shape, "axis": axis, "dtype": dtype, "kind": kind, "seed": draw(st.integers(0, 2**31 - 1)), "colscale": colscale,
            "w": draw(st.integers(0, max(0, N // 2))), "a": draw(st.integers(-48, 48)) / 16, "b": draw(st.integers(-48, 48)) / 16,
            "swap": draw(st.integers(0, 5)) == 0}


def mk(case, seed_off=0):
    shape, axis, N = tuple(case["shape"]), case["axis"], case["shape"][case["axis"]]
    dt = G.DT[case["dtype"]]
    rng = np.random.default_rng(case["seed"] + seed_off)
    k = case["kind"]
    if k == "noise" or seed_off:
        x = rng.standard_normal(shape) * 10
    elif k == "const":
        x = np.full(shape, 3.0)
    elif k == "impulse":
        x = np.zeros(shape)
        if N:
            ix = [slice(None)] * len(shape)
            ix[axis] = case["seed"] % N
            x[tuple(ix)] = 7.0
    else:
        n = np.arange(N).reshape([N if i == (axis % len(shape)) else 1 for i in range(len(shape))])
        x = 5 * np.cos(2 * np.pi * case["w"] * n / max(N, 1) + 0.3) * np.ones(shape)
    if dt == np.bool_:
        return x > 0
    if np.issubdtype(dt, np.integer):
        x = np.clip(np.rint(x), 0 if dt == np.uint8 else -100, 100)
    cs = case.get("colscale")
    if cs and x.size:
        other = [d if i != axis % len(shape) else 1 for i, d in enumerate(shape)]
        x = x * (10.0 ** np.array(cs, dtype=np.float64)).reshape(other)
    return x.astype(dt)


def run_r2c(case, stt):
    import pulsarbat as pb

    x = mk(case)
    axis = case["axis"]
    N = x.shape[axis]
    x0 = x.copy()
    xin = x
    if case.get("swap") and x.dtype.itemsize > 1:
        # the same values of the same real type held in the other byte order (data read from a big-endian file)
        xin = x.astype(x.dtype.newbyteorder("S"))
        stt.label("byte_swapped_input")
    with lib("real_to_complex" + (" (byte-swapped %s input)" % x.dtype if xin is not x else "")):
        y = pb.utils.real_to_complex(xin, axis=axis)
    check(np.array_equal(xin, x0), "real_to_complex modified its input")
    want_dt = np.complex64 if x.dtype == np.float32 else np.complex128
    check(y.dtype == want_dt, "dtype {} for {} input along axis {} (expected {})", y.dtype, x.dtype, axis, np.dtype(want_dt))
    shape = list(x.shape)
    shape[axis] = (N + 1) // 2
    check(list(y.shape) == shape, "shape {} -> {}, expected {} (ceil(N/2) along axis {})", x.shape, y.shape, shape, axis)
    ref = reference(x, axis)
    scale = float(np.max(np.abs(x.astype(np.float64)))) if x.size else 0.0
    eps = 6e-8 if want_dt == np.complex64 else 1.2e-16
    if x.dtype == np.float16:
        eps = 6e-8  # scipy.fft computes half-precision input in single precision (the result is still stored as complex128)
    tol = 16 * eps * (1 + math.log2(max(N, 2))) ** 2 * max(scale, 1e-300)  # (two transforms of length N and N exact mixer values)
    if y.size:
        # line by line (each line along the axis is its own conversion): the error is measured against that line's own amplitude
        yl = np.moveaxis(np.asarray(y), axis, 0).reshape(y.shape[axis], -1)
        rl = np.moveaxis(ref, axis, 0).reshape(y.shape[axis], -1)
        xl = np.moveaxis(x.astype(np.float64), axis, 0).reshape(N, -1)
        for j in range(yl.shape[1]):
            sj = float(np.max(np.abs(xl[:, j])))
            tj = 16 * eps * (1 + math.log2(max(N, 2))) * math.sqrt(max(N, 1)) * max(sj, 1e-300)
            ej = float(np.max(np.abs(yl[:, j] - rl[:, j])))
            check(ej <= tj, "line {} (amplitude {:.3g}) differs from the analytic-baseband definition by {:.3g} (tol {:.3g}; N={}, axis={}, dtype={}, "
                  "largest amplitude in the array {:.3g})", j, sj, ej, tj, N, axis, x.dtype, scale)
    if case.get("colscale"):
        stt.label("lines_of_different_amplitude")
    if y.size:
        m = np.arange(y.shape[axis]).reshape([y.shape[axis] if i == (axis % x.ndim) else 1 for i in range(x.ndim)])
        sl = [slice(None)] * x.ndim
        sl[axis] = slice(None, None, 2)
        e2 = float(np.max(np.abs(((-1.0) ** m) * y.real - x[tuple(sl)].astype(np.float64))))
        check(e2 <= tol, "(-1)^m Re(out[m]) differs from input sample 2m by {:.3g} (N={})", e2, N)
    # linearity (float inputs only: a*x+b*y must stay in the dtype)
    if x.dtype in (np.float32, np.float64) and x.size:
        x2 = mk(case, seed_off=1).astype(x.dtype)
        a, b = x.dtype.type(case["a"]), x.dtype.type(case["b"])
        comb = (a * x + b * x2).astype(x.dtype)
        with lib("real_to_complex (linearity)"):
            y2, yc = pb.utils.real_to_complex(x2, axis=axis), pb.utils.real_to_complex(comb, axis=axis)
        sc = max(float(np.max(np.abs(comb))), abs(float(a)) * scale + abs(float(b)) * float(np.max(np.abs(x2))))
        tol2 = 32 * eps * (1 + math.log2(max(N, 2))) * math.sqrt(max(N, 1)) * max(sc, 1e-300)
        e3 = float(np.max(np.abs(yc - (complex(a) * y.astype(np.complex128) + complex(b) * y2.astype(np.complex128)))))
        check(e3 <= tol2, "not linear: f(ax+by) - a f(x) - b f(y) = {:.3g} (tol {:.3g})", e3, tol2)
    # tone at w -> tone at w - N/4
    if case["kind"] == "tone" and N >= 4 and 0 < case["w"] < N / 2 and x.dtype in (np.float32, np.float64) and y.size:
        M = y.shape[axis]
        mm = np.arange(M)
        amp0 = 10.0 ** case["colscale"][0] if case.get("colscale") else 1.0
        exp = 5 * amp0 * np.exp(1j * (2 * np.pi * (case["w"] - N / 4) * (2 * mm) / N + 0.3))
        got = np.moveaxis(y, axis, 0).reshape(M, -1)[:, 0]
        e4 = float(np.max(np.abs(got - exp)))
        check(e4 <= tol * 4 + 1e-12 * amp0, "a real tone at {} cycles per {} samples did not become a complex tone at w - N/4 (err {:.3g})", case["w"], N, e4)
    must_raise("complex input", lambda: pb.utils.real_to_complex(x.astype(np.complex64), axis=axis), (ValueError,))
    stt.nt(N >= 3 and ((axis % x.ndim) != 0 or N % 2 == 1 or case["kind"] != "tone"))
    stt.label("N%%4=%d" % (N % 4))
    stt.label("axis_%d_of_%d" % (axis % x.ndim, x.ndim))
    stt.label("dtype_" + case["dtype"])
    stt.label("kind_" + case["kind"])


@st.composite
def hist_case(draw):
    return {"calls": [draw(r2c_case()) for _ in range(draw(st.integers(2, 4)))], "repeat_first": draw(st.booleans())}


def run_hist(case, stt):
    """several conversions in one process (different lengths, axes, dtypes; the first one again at the end)"""
    calls = case["calls"] + ([case["calls"][0]] if case["repeat_first"] else [])
    for c in calls:
        run_r2c(c, stt)
    stt.nt(case["repeat_first"])


# -- long / wide arrays (numpy.fft reference) -----------------------------------------------------------------------


@st.composite
def wide_case(draw):
    N = draw(st.sampled_from([4096, 8000, 16384, 20000, 32768, 40001, 65538, 131074]))
    ncol = draw(st.sampled_from([1, 2, 3, 5, 8, 16]))
    if N * ncol > 400000:
        ncol = max(1, 400000 // N)
    axis = draw(st.sampled_from([0, 1, -1, -2]))
    return {"N": N, "ncol": ncol, "axis": axis, "dtype": draw(st.sampled_from(["f4", "f8", "i2"])), "seed": draw(st.integers(0, 1000))}


def run_wide(case, stt):
    import pulsarbat as pb

    N, ncol = case["N"], case["ncol"]
    rng = np.random.default_rng(case["seed"])
    x = rng.standard_normal((N, ncol)) * 10
    dt = G.DT[case["dtype"]]
    x = np.rint(x).astype(dt) if np.issubdtype(dt, np.integer) else x.astype(dt)
    ax = case["axis"] % 2
    xin = x if ax == 0 else np.ascontiguousarray(x.T)
    with lib("real_to_complex"):
        y = pb.utils.real_to_complex(xin, axis=case["axis"])
    y = y if ax == 0 else y.T
    check(y.shape == ((N + 1) // 2, ncol), "shape {} for input ({}, {}) along axis {}", y.shape, N, ncol, case["axis"])
    check(y.dtype == (np.complex64 if dt == np.float32 else np.complex128), "dtype {}", y.dtype)
    a = np.fft.fft(x.astype(np.float64), axis=0)
    h = np.zeros(N)
    h[0] = 1
    h[1 : (N + 1) // 2] = 2
    if N % 2 == 0:
        h[N // 2] = 1
    ref = (np.fft.ifft(a * h[:, None], axis=0) * np.exp(-0.5j * np.pi * (np.arange(N) % 4))[:, None])[::2]
    eps = 6e-8 if dt == np.float32 else 1.2e-16
    # FFT rounding at the data's precision + the float64 mixing phasor exp(-i pi n / 2), whose argument carries a relative error of eps64
    # (absolute error growing linearly with n)
    tol = 64 * eps * (1 + math.log2(N)) * float(np.max(np.abs(x)))
    err = np.max(np.abs(y - ref), axis=0)
    bad = [int(j) for j in np.nonzero(err > tol)[0]]
    check(not bad, "columns {} differ from the analytic-baseband conversion (max error {:.3g}, tol {:.3g}; N={}, {} columns, axis={})", bad, float(err.max()), tol,
          N, ncol, case["axis"])
    stt.nt(ncol > 1)
    stt.label("N_%d" % N)
    stt.label("dtype_" + case["dtype"])


# -- reader path: real-sampled VDIF written by the check ----------------------------------------------------------


@st.composite
def reader_case(draw):
    nframes = draw(st.integers(8, 12))
    spf = draw(st.sampled_from([64, 128, 1024]))  # real samples per frame: 2-bit -> multiple of 16... keep 8-bit
    total = nframes * spf // 2
    n = draw(st.one_of(st.integers(0, min(total, 40)), st.integers(0, total), st.sampled_from([3, 5, 7, 9, 33])))
    n = min(n, total)
    o = draw(st.integers(0, total - n))
    return {"nframes": nframes, "spf": spf, "o": o, "n": n, "seed": draw(st.integers(0, 2)), "big": False}


@st.composite
def reader_big_case(draw):
    # long single reads: block-wise conversion would differ from the conversion of the whole read
    spf = 4096
    nframes = draw(st.sampled_from([6, 9]))
    total = nframes * spf // 2
    n = draw(st.integers(8200, total))
    o = draw(st.integers(0, total - n))
    return {"nframes": nframes, "spf": spf, "o": o, "n": n, "seed": draw(st.integers(0, 1)), "big": True}


def write_real_vdif(path, case):
    from baseband import vdif
    from astropy.time import Time

    rng = np.random.default_rng(case["seed"])
    nthread = 1
    total = case["nframes"] * case["spf"]
    data = np.rint(np.clip(rng.standard_normal((total, nthread)) * 20, -120, 120))
    hdr = vdif.VDIFHeader.fromvalues(edv=1, time=Time("2020-01-01T00:00:00", precision=9), samples_per_frame=case["spf"], nchan=1, bps=8,
                                     complex_data=False, thread_id=0, station=65, sample_rate=16 * u.kHz)
    with vdif.open(path, "ws", header0=hdr, nthread=nthread, squeeze=False) as fw:
        fw.write(data.reshape(total, nthread, 1))
    return data


_FILES = {}


def run_reader(case, stt):
    import pulsarbat as pb
    import baseband
    from ..core import scratch_dir

    key = (case["nframes"], case["spf"], case["seed"])
    path = os.path.join(scratch_dir(), "real-%d-%d-%d.vdif" % key)
    try:
        if key not in _FILES or not os.path.exists(path):
            write_real_vdif(path, case)
            with baseband.open(path, "rs") as fh:
                raw = fh.read()
                _FILES[key] = (raw.reshape(raw.shape[0], -1), fh.sample_rate)
        raw, fs = _FILES[key]
        with lib("BasebandReader(real vdif)"):
            r = pb.readers.BasebandReader(path)
        check(len(r) == raw.shape[0] // 2, "reader length {} != file samples // 2 = {}", len(r), raw.shape[0] // 2)
        check(abs(O.hz(r.sample_rate) - O.hz(fs) / 2) <= O.hz(fs) * 10**-15, "reader sample_rate {} is not half of the file's {}", r.sample_rate, fs)
        check(r.dtype == np.complex64, "reader dtype {}", r.dtype)
        n = min(case["n"], len(r))
        o = min(case["o"], len(r) - n)  # (baseband may see fewer complete frames than were written)
        with lib("read"):
            z = r.read(o, n)
        check(len(z) == n and z.data.dtype == np.complex64, "read({}, {}) returned {} samples of {}", o, n, len(z), z.data.dtype)
        block = raw[2 * o : 2 * o + 2 * n]
        if n:
            if case["big"] or 2 * n > 256:
                a = np.fft.fft(block.astype(np.float64), axis=0)
                N = block.shape[0]
                h = np.zeros(N)
                h[0] = 1
                h[1 : N // 2] = 2
                h[N // 2] = 1
                ref = (np.fft.ifft(a * h[:, None], axis=0) * np.exp(-0.5j * np.pi * (np.arange(N) % 4))[:, None])[::2]
            else:
                ref = np.asarray(reference(block, 0))
            tol = 16 * 6e-8 * (1 + math.log2(2 * n)) ** 2 * float(np.max(np.abs(block)))
            err = float(np.max(np.abs(np.asarray(z.data).reshape(ref.shape) - ref)))
            check(err <= tol, "read({}, {}) of a real-sampled file is not the analytic conversion of file samples [{}, {}): err {:.3g} (tol {:.3g})",
                  o, n, 2 * o, 2 * o + 2 * n, err, tol)
        stt.nt(n >= 3)
        stt.label("n%%2=%d" % (n % 2))
        stt.label("big" if case["big"] else "small")
    finally:
        pass  # files live in the job's scratch directory, removed by the runner


SUBS = [
    Sub("array", r2c_case(), run_r2c,
        "N 0..130 of every residue mod 4, rank 1..3 (other axes of length 0..3), every axis incl. negative, dtypes f2/f4/f8/i2/i8/u1/bool, "
        "noise/tone/impulse/constant data, optionally lines of very different amplitude side by side (error measured per line); definition, shape, dtype, real-part identity, linearity, tone mapping, complex refusal; non-trivial = N >= 3 and (axis != 0 or "
        "odd N or non-tone data)", quick=2500, thorough=50000, pieces_quick=4),
    Sub("call_history", hist_case(), run_hist, "2..4 conversions of different arrays in one process, the first repeated at the end; non-trivial = "
        "with the repeat", quick=300, thorough=5000, pieces_quick=3),
    Sub("long_wide_arrays", wide_case(), run_wide,
        "N in {4096..131074} x 1..16 columns along either axis (numpy.fft float64 reference), f4/f8/i2; every column checked; non-trivial = "
        "more than one column", quick=150, thorough=1500, pieces_quick=4),
    Sub("reader_real_vdif", reader_case(), run_reader,
        "real-sampled 8-bit VDIF files written by the check (8..12 frames), read(offset, n) incl. odd n and frame-crossing reads, compared with "
        "the reference conversion of file samples [2o, 2o+2n); non-trivial = n >= 3", quick=400, thorough=5000, pieces_quick=4),
    Sub("reader_long_reads", reader_big_case(), run_reader,
        "single reads of more than 8192 complex samples from a real-sampled file (numpy.fft reference); all non-trivial", quick=40, thorough=400,
        pieces_quick=4),
]

"""C18 -- fast FFT lengths are the nearest 7-smooth numbers; fast_len crops from the end."""

import random

import numpy as np
from hypothesis import strategies as st

from ..core import Sub, EnumSub, Violation, check, lib
from .. import oracle as O, gen as G
from ..contract import contract, assert_start, assert_rate, same_meta, bits_equal, rate_hz

ASSUMPTIONS = [
    "oracle = bisect in an independently generated table of all 2^a 3^b 5^c 7^d < 2^64",
    "lru_cache on the two functions is cleared between pieces only by process isolation (each job is a fresh process)",
]
EXHAUSTIVE = {"quick": False, "thorough": False}
SMALL = {"quick": 10**6, "thorough": 10**7}


def _both(n):
    import pulsarbat as pb

    with lib("next_fast_len/prev_fast_len"):
        a, b = pb.utils.next_fast_len(n), pb.utils.prev_fast_len(n)
    ea, eb = O.next_smooth(n), O.prev_smooth(n)
    check(a == ea, "next_fast_len({}) = {} but the smallest 7-smooth number >= N is {}", n, a, ea)
    check(b == eb, "prev_fast_len({}) = {} but the largest 7-smooth number <= N is {}", n, b, eb)


def _nontrivial(n):
    return n > 10 and not O.is_smooth(n)


# -- 1. exhaustive small range ----------------------------------------------------------------


def enum_small(tier, piece, npieces, stt, seed):
    import pulsarbat as pb

    hi = SMALL[tier]
    lo_i, hi_i = hi * piece // npieces, hi * (piece + 1) // npieces
    nxt, prv = pb.utils.next_fast_len.__wrapped__, pb.utils.prev_fast_len.__wrapped__
    tab = O.smooth_table()
    import bisect

    nt = 0
    # walk the table alongside n: expected next/prev change only at smooth numbers
    j = bisect.bisect_left(tab, max(lo_i, 1))
    for n in range(lo_i, hi_i):
        if n == 0:
            ea = eb = 0
        else:
            while tab[j] < n:
                j += 1
            ea = tab[j]
            eb = ea if ea == n else tab[j - 1]
        stt._cur = {"n": n}
        with lib("next_fast_len/prev_fast_len"):
            a, b = nxt(n), prv(n)
        if a != ea or b != eb:
            stt.failure = ({"n": n}, f"next_fast_len({n})={a} (expected {ea}), prev_fast_len({n})={b} (expected {eb})")
            raise Violation(stt.failure[1])
        if n > 10 and ea != n:
            nt += 1
    stt.bulk(hi_i - lo_i, nt, samples=[{"n": lo_i + 11}, {"n": hi_i - 1}])
    stt.label("exhaustive_range", hi_i - lo_i)


def replay_n(case, stt):
    _both(case["n"])


# -- 2. at and around every 7-smooth number below 2^62 ------------------------------------------


def enum_around(tier, piece, npieces, stt, seed):
    import pulsarbat as pb

    tab = [s for s in O.smooth_table() if s < 2**62]
    nxt, prv = pb.utils.next_fast_len.__wrapped__, pb.utils.prev_fast_len.__wrapped__
    if tier == "quick":
        rng = random.Random(seed)  # which 10 % of the large ones; enumeration sample, not a case generator
        # all s < 2^40, every ODD smooth number (3^b 5^c 7^d: reached only through the outer loops of the search, never by doubling),
        # and a seeded 10 % of the rest
        idx = [i for i, s in enumerate(tab) if s < 2**40 or s % 2 == 1 or rng.random() < 0.10]
    else:
        idx = list(range(len(tab)))
    idx = idx[piece::npieces]
    ev = nt = 0
    for i in idx:
        s = tab[i]
        nx = tab[i + 1] if i + 1 < len(tab) else O.smooth_table()[len(tab)]
        mid = (s + nx) // 2
        probes = {n: (O.next_smooth(n), O.prev_smooth(n)) for n in (s - 1, s, s + 1, mid) if 0 <= n < 2**62}
        for n, (ea, eb) in probes.items():
            stt._cur = {"n": n}
            with lib("next_fast_len/prev_fast_len"):
                a, b = nxt(n), prv(n)
            ev += 1
            if a != ea or b != eb:
                stt.failure = ({"n": n}, f"next_fast_len({n})={a} (expected {ea}), prev_fast_len({n})={b} (expected {eb})")
                raise Violation(stt.failure[1])
            if n > 10 and ea != n:
                nt += 1
    stt.bulk(ev, nt, samples=[{"n": tab[idx[0]] + 1}, {"n": tab[idx[-1]] - 1}] if idx else [])
    stt.label("smooth_numbers_probed", len(idx))


# -- 3. random N below 2^62 ----------------------------------------------------------------------


@st.composite
def big_n(draw):
    kind = draw(st.integers(0, 3))
    if kind == 0:
        return {"n": draw(st.integers(0, 2**62 - 1))}
    if kind == 1:
        j = draw(st.integers(0, 61))
        k = draw(st.integers(1, 2**12))
        d = draw(st.integers(-3, 3))
        return {"n": min(2**62 - 1, max(0, k * 2**j + d))}
    if kind == 2:
        e = draw(st.integers(0, 61))
        return {"n": draw(st.integers(2**e, 2 ** (e + 1) - 1))}
    a, b, c, d = (draw(st.integers(0, m)) for m in (61, 39, 26, 22))
    s = 2**a * 3**b * 5**c * 7**d
    while s >= 2**62:
        s //= 7 if s % 7 == 0 else 5 if s % 5 == 0 else 3 if s % 3 == 0 else 2
    return {"n": max(0, s + draw(st.integers(-2, 2)))}


def run_big(case, stt):
    n = case["n"]
    _both(n)
    stt.nt(_nontrivial(n))
    stt.label("bits_%02d" % (n.bit_length() // 8 * 8))


# -- 3b. call orders from a fresh module state, argument kinds ------------------------------------------------------


def _pure57():
    out = []
    a = 1
    while a < 2**62:
        b = a
        while b < 2**62:
            out.append(b)
            b *= 7
        a *= 5
    return sorted(out)


PURE57 = _pure57()
INT_KINDS = {"int": int, "np.int64": np.int64, "np.uint64": np.uint64, "np.intp": np.intp, "np.int32": np.int32, "np.int16": np.int16, "np.uint8": np.uint8,
             "np.uint32": np.uint32}


@st.composite
def order_case(draw):
    tab = O.smooth_table()
    one = st.one_of(st.sampled_from(PURE57), st.sampled_from(PURE57), st.sampled_from(tab), st.integers(0, 2**62 - 1),
                    st.sampled_from([2**53, 2**60, 3 * 2**58, 35 * 2**55, 2**61, 2**31, 2**32, 2**24]))
    calls = []
    for _ in range(draw(st.integers(1, 8))):
        n = min(2**62 - 1, max(0, draw(one) + draw(st.sampled_from([0, 0, 0, 1, -1, 5, 129]))))
        kind = draw(st.sampled_from(sorted(INT_KINDS)))
        if kind in ("np.int32", "np.int16", "np.uint8", "np.uint32"):
            # a narrow NumPy integer: N from the upper half of what the type holds (where 2*N no longer fits), or small
            top = int(np.iinfo(INT_KINDS[kind]).max)
            n = draw(st.one_of(st.integers(top // 2, top), st.integers(0, top), st.sampled_from([s for s in tab if s <= top][-40:])))
            n = min(top, max(0, n + draw(st.sampled_from([0, 0, 1, -1]))))
        calls.append([draw(st.sampled_from(["next", "prev", "prev", "both"])), n, kind])
        if kind == "int" and n > 10 and draw(st.integers(0, 2)) == 0:
            # ... directly followed by a call at one of the answers just given (or right next to it)
            m = draw(st.sampled_from([O.prev_smooth(n), O.next_smooth(n)])) + draw(st.sampled_from([0, 0, 1, -1]))
            calls.append([draw(st.sampled_from(["next", "prev", "both"])), min(2**62 - 1, max(0, m)), "int"])
    return {"calls": calls}


def run_orders(case, stt):
    """a call sequence in drawn order starting from a FRESH state of pulsarbat.utils (module re-executed: its caches and tables start empty),
    with N given as a Python int or a NumPy integer scalar; every answer against the 7-smooth table"""
    import importlib
    import pulsarbat.utils as U0

    U = importlib.reload(U0)
    biggest = 0
    rising = 0
    for which, n, kind in case["calls"]:
        arg = INT_KINDS[kind](n)
        for fn, exp, txt in (("next", O.next_smooth(n), "smallest 7-smooth number >= N"), ("prev", O.prev_smooth(n), "largest 7-smooth number <= N")):
            if which not in (fn, "both"):
                continue
            with lib("%s_fast_len(%s(%d))" % (fn, kind, n)):
                got = getattr(U, fn + "_fast_len")(arg)
            check(int(got) == exp and got == exp, "{}_fast_len({}({})) = {} but the {} is {} (calls so far: {})", fn, kind, n, got, txt, exp,
                  case["calls"][: case["calls"].index([which, n, kind]) + 1])
        if n >= 2 * biggest and n > 10:
            rising += 1
        biggest = max(biggest, n)
    stt.nt(rising >= 2 or any(k != "int" and n > 2**53 for _, n, k in case["calls"]))
    stt.label("calls_%d" % len(case["calls"]))
    for _, n, k in case["calls"]:
        stt.label("kind_" + k)


# -- 4. fast_len on signals -----------------------------------------------------------------------


def fl_strategy():
    # (the third: a user subclass of Signal that names its own axes -- axis 0, the time axis, is called something else)
    return st.one_of(G.signal_spec(nmax=400, max_trailing=1, nchan_max=3),
                     G.signal_spec(nmin=400, nmax=5000, max_trailing=0, nchan_max=2),
                     G.signal_spec(classes=["Signal"], nmax=400, max_trailing=2).map(lambda sp: dict(sp, sub="axes")))


def run_fast_len(spec, stt):
    import pulsarbat as pb

    z = G.build(spec)
    n = spec["n"]
    with lib("fast_len"):
        y = pb.fast_len(z)
    contract(y, "fast_len")
    m = O.prev_smooth(n)
    check(len(y) == m, "fast_len: length {} -> {} but prev 7-smooth is {}", n, len(y), m)
    check(bits_equal(y.data, z.data[:m]), "fast_len: retained samples are not the first {} input samples", m)
    same_meta(y, z, "fast_len: ")
    assert_start(y, None if z.start_time is None else O.T(z.start_time), k=1, what="fast_len: ")
    if z.start_time is not None:
        # "untouched": nothing is dropped at the front, so the start time is the very same instant (no Time arithmetic to round)
        check(O.T(y.start_time) == O.T(z.start_time) and y.start_time.scale == z.start_time.scale, "fast_len moved the start time by {:.3g} s",
              float(O.T(y.start_time) - O.T(z.start_time)))
    if z.start_time is not None and m > 0:
        L = O.T(y.stop_time) - O.T(y.start_time)
        check(abs(L - m / rate_hz(z)) <= O.time_tol(2, m / rate_hz(z)), "fast_len: stop_time - start_time = {} s, expected {} s",
              float(L), float(m / rate_hz(z)))
    stt.nt(_nontrivial(n))
    stt.label(spec["cls"])
    stt.label("start" if spec["t0"] else "nostart")
    if spec.get("sub"):
        stt.label("user_subclass_%s" % spec["sub"])


SUBS = [
    EnumSub("small_exhaustive", enum_small, replay_n,
            "exhaustive over 0 <= N < 10^6 (quick) / 10^7 (thorough); non-trivial = N > 10 and N not 7-smooth"),
    EnumSub("around_smooth", enum_around, replay_n,
            "s-1, s, s+1 and the midpoint to the next smooth number for 7-smooth s < 2^62 (quick: all s < 2^40, all odd s, plus a "
            "seeded 10 % of the rest; thorough: all 75 711); non-trivial = N > 10 and N not 7-smooth"),
    Sub("random_N", big_n(), run_big, "Hypothesis integers in [0, 2^62) skewed to k*2^j+-d and near-smooth products; "
        "non-trivial = N > 10 and not 7-smooth", quick=3000, thorough=200000),
    Sub("call_orders", order_case(), run_orders,
        "1..8 next/prev_fast_len calls in drawn order from a fresh state of pulsarbat.utils (module re-executed at the start of every case), N "
        "drawn from the pure 5^a*7^b numbers, all 7-smooth numbers, powers of two and random values (+-1, +5, +129), given as Python int / "
        "np.int64 / np.uint64 / np.intp / np.int32 / np.uint32 / np.int16 / np.uint8 (the narrow ones with N in the upper half of their range); non-trivial = at least two calls whose N is at least twice every earlier N, or a NumPy integer above 2^53",
        quick=1600, thorough=100000),
    Sub("fast_len_signal", fl_strategy(), run_fast_len, "signals of every class, length 0..5000; non-trivial = length > 10 "
        "and not 7-smooth (so samples are actually dropped)", quick=600, thorough=20000),
]

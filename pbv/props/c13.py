"""C13 -- polarisation conversions are unitary, invertible and Stokes-consistent."""

import numpy as np
from hypothesis import strategies as st

from ..core import Sub, check, lib, must_raise
from .. import oracle as O, gen as G
from ..contract import contract, same_meta, same_start, bits_equal

ASSUMPTIONS = [
    "formulas written out from the class docstring: L = (X - iY)/sqrt2, R = (X + iY)/sqrt2; I = |X|^2+|Y|^2, Q = |X|^2-|Y|^2, U = 2Re(X*Y), "
    "V = 2Im(X*Y) (X* = conjugate of X); evaluated in complex128/longdouble",
    "relative tolerances: 4e-6 of the per-sample power scale for complex64 data, 1e-13 for complex128 (NumPy 2 promotes the conversions of "
    "complex64 data to complex128 via the float64 scalar sqrt(2); the property does not promise the width, only values are compared)",
]

KINDS = ["noise", "noise", "pureX", "pureY", "pureL", "pureR", "zeros", "mixed_scale", "phase45"]


@st.composite
def dp_case(draw):
    spec = draw(G.signal_spec(classes=["DualPolarizationSignal"], nmin=1, nmax=24, nchan_max=5, max_trailing=2, data_kinds=("noise",)))
    return {"sig": spec, "kind": draw(st.sampled_from(KINDS)), "scale": draw(st.sampled_from([1.0, 1.0, 1e-3, 1e3, 1e-10, 1e8])),
            "dask": draw(st.integers(0, 5)) == 0, "chunking": draw(st.sampled_from(["half", "ragged", "ragged", "ones"])),
            "prep": draw(st.sampled_from(["none", "none", "none", "pickle", "pickle", "deepcopy", "copy"])),
            # memory layout of the samples: C order, Fortran order, or a transposed view (what readers that swap axes hand out)
            "layout": draw(st.sampled_from(["C", "C", "F", "T", "T2"]))}


def mk(case):
    """-> (data array in the signal's basis, X, Y as complex128)"""
    spec = case["sig"]
    shape = (spec["n"],) + tuple(spec["sshape"])
    rng = np.random.default_rng(spec["data"]["seed"])
    half = shape[:2] + shape[3:]
    a = rng.standard_normal(half) + 1j * rng.standard_normal(half)
    b = rng.standard_normal(half) + 1j * rng.standard_normal(half)
    k = case["kind"]
    z0 = np.zeros(half, complex)
    if k in ("pureX", "pureL"):
        p0, p1 = a, z0
    elif k in ("pureY", "pureR"):
        p0, p1 = z0, a
    elif k == "zeros":
        p0, p1 = z0, z0
    elif k == "mixed_scale":
        p0, p1 = a * 1e3, b * 1e-3
    elif k == "phase45":
        p0, p1 = a, a * np.exp(0.25j * np.pi)
    else:
        p0, p1 = a, b
    if k in ("pureX", "pureY"):
        basis = "linear"
    elif k in ("pureL", "pureR"):
        basis = "circular"
    else:
        basis = spec["pol"]
    spec = dict(spec, pol=basis)
    data = np.stack([p0, p1], axis=2) * case["scale"]
    data = data.astype(G.DT[spec["dtype"]])
    d0, d1 = data[:, :, 0].astype(np.complex128), data[:, :, 1].astype(np.complex128)
    if basis == "linear":
        X, Y = d0, d1
    else:
        L, R = d0, d1
        X, Y = (L + R) / np.sqrt(2), 1j * (L - R) / np.sqrt(2)  # inverse of L=(X-iY)/sqrt2, R=(X+iY)/sqrt2
    return spec, data, X, Y


_MEMO = {}


def arr(s):
    import dask.array as da

    d = s.data
    if isinstance(d, da.Array):
        k = id(s)
        if k not in _MEMO or _MEMO[k][0] is not s:
            if len(_MEMO) > 64:
                _MEMO.clear()
            _MEMO[k] = (s, np.asarray(d.compute(scheduler="synchronous")))
        return _MEMO[k][1]
    return np.asarray(d)


def run_dp(case, stt):
    import pulsarbat as pb
    import dask.array as da

    spec, data, X, Y = mk(case)
    chunk_of = {"half": lambda n: max(1, n // 2), "ragged": lambda n: max(1, (2 * n + 2) // 3), "ones": lambda n: 1}[case.get("chunking", "half")]
    chunks = None
    if case["dask"]:
        chunks = tuple(chunk_of(n) for n in data.shape)
        if case.get("chunking") == "ones":
            # single-sample blocks along time (short signals) and across the polarisation axis; halves elsewhere (the graph stays small)
            chunks = tuple(1 if ax == 2 or (ax == 0 and n <= 8) else max(1, n // 2) for ax, n in enumerate(data.shape))
    held = data.copy()
    lay = case.get("layout", "C")
    if lay == "F":
        held = np.asfortranarray(held)
    elif lay in ("T", "T2") and held.ndim >= 3:
        # the same values, axes stored in another order (a view of an array whose channel and polarisation axes are swapped in memory)
        perm = (0, 2, 1) + tuple(range(3, held.ndim)) if lay == "T" else (2, 1, 0) + tuple(range(3, held.ndim))
        held = np.ascontiguousarray(held.transpose(perm)).transpose(np.argsort(perm))
        assert held.shape == data.shape and not held.flags.c_contiguous or held.size <= 1 or 1 in held.shape[:3]
    z = G.build(spec, data=held, chunks=chunks)
    if not case["dask"]:
        stt.label("layout_" + lay)
    prep = case.get("prep", "none")
    if prep != "none":
        # the signal reached the caller through pickle (another process) / deepcopy / copy: the same signal
        import copy
        import pickle

        with lib(prep + " of the signal"):
            z = {"pickle": lambda q: pickle.loads(pickle.dumps(q)), "deepcopy": copy.deepcopy, "copy": copy.copy}[prep](z)
        stt.label("input_via_" + prep)
    rt = 4e-6 if spec["dtype"] == "c8" else 1e-13
    L, R = (X - 1j * Y) / np.sqrt(2), (X + 1j * Y) / np.sqrt(2)
    power = np.abs(X) ** 2 + np.abs(Y) ** 2
    amp = float(np.sqrt(power.max())) if power.size else 0.0
    atol = rt * amp
    with lib("to_linear / to_circular / to_stokes"):
        lin, cir = z.to_linear(), z.to_circular()
        st_ = z.to_stokes()
        st_lin, st_cir = lin.to_stokes(), cir.to_stokes()
        back = (cir.to_linear() if spec["pol"] == "linear" else lin.to_circular())
        inten = z.to_intensity()
    for s, w in ((lin, "to_linear"), (cir, "to_circular"), (st_, "to_stokes"), (back, "round trip"), (inten, "to_intensity")):
        contract(s, w)
        if case["dask"]:
            check(isinstance(s.data, da.Array), "{}: result of a Dask-backed signal is not Dask-backed", w)
        same_start(s, z, w + ": ")
        check(O.hz(s.sample_rate) == O.hz(z.sample_rate) and O.hz(s.center_freq) == O.hz(z.center_freq) and s.freq_align == z.freq_align
              and s.meta == z.meta, "{}: metadata not carried", w)
    for s, w, shp in ((lin, "to_linear", data.shape), (cir, "to_circular", data.shape), (back, "round trip", data.shape), (inten, "to_intensity", data.shape),
                      (st_, "to_stokes", data.shape[:2] + (4,) + data.shape[3:])):
        # what the (possibly lazy) result says about itself is what it holds: shape, length, and slices counted from the end
        check(tuple(s.shape) == tuple(shp) and len(s) == shp[0], "{}: shape {} / len {} for a result of shape {}", w, tuple(s.shape), len(s), tuple(shp))
        full = arr(s)
        check(full.shape == tuple(shp), "{}: the computed result has shape {}, the signal says {}", w, full.shape, tuple(s.shape))
        if shp[0] >= 1 and not (case["dask"] and w in ("round trip", "to_" + spec["pol"])):
            with lib(w + " result sliced from the end"):
                tail, lastchan = s[-2:], s[:, -1:]
            check(bits_equal(np.asarray(tail.data), full[-2:]), "{}: result[-2:] is not the last samples of the result (got shape {})", w, tuple(tail.shape))
            check(bits_equal(np.asarray(lastchan.data), full[:, -1:]), "{}: result[:, -1:] is not the last channel of the result", w)
    check(type(lin) is type(z) and lin.pol_type == "linear", "to_linear gives {} / {}", type(lin).__name__, lin.pol_type)
    check(type(cir) is type(z) and cir.pol_type == "circular", "to_circular gives {} / {}", type(cir).__name__, cir.pol_type)
    check(type(st_) is pb.FullStokesSignal and type(inten) is pb.IntensitySignal, "to_stokes/to_intensity types {} {}", type(st_).__name__, type(inten).__name__)
    l, c = arr(lin), arr(cir)

    def close(a, b, what, tol=atol):
        e = float(np.max(np.abs(a - b))) if a.size else 0.0
        check(e <= tol, "{}: max error {:.3g} (tol {:.3g})", what, e, tol)

    close(l[:, :, 0], X, "to_linear X")
    close(l[:, :, 1], Y, "to_linear Y")
    close(c[:, :, 0], L, "to_circular: component 0 is not L = (X - iY)/sqrt2")
    close(c[:, :, 1], R, "to_circular: component 1 is not R = (X + iY)/sqrt2")
    # identity in the same basis: the very same samples
    same = lin if spec["pol"] == "linear" else cir
    check(bits_equal(arr(same), data), "conversion to the basis the signal is already in changed the samples")
    # ... and, as documented, it is a copy of the signal OBJECT: re-labelling the result must not re-label the signal it came from
    check(same is not z, "conversion to the basis already held returned the very same object (documented: a copy of the signal object)")
    with lib("pol_type assignment on the result of an identity conversion"):
        same.pol_type = "circular" if spec["pol"] == "linear" else "linear"
    check(z.pol_type == spec["pol"], "assigning pol_type on the result of an identity conversion changed the original signal's pol_type to {!r}", z.pol_type)
    same.pol_type = spec["pol"]
    # power per sample preserved, inverse restores
    ptol = rt * float(power.max()) * 2 if power.size else 0.0
    for s, w in ((l, "to_linear"), (c, "to_circular")):
        pw = np.abs(s[:, :, 0].astype(np.complex128)) ** 2 + np.abs(s[:, :, 1].astype(np.complex128)) ** 2
        close(pw, power, w + ": total power per sample not preserved", ptol)
    close(arr(back).astype(np.complex128), data.astype(np.complex128), "opposite conversion does not restore the input", 2 * atol)
    # Stokes
    I, Q = power, np.abs(X) ** 2 - np.abs(Y) ** 2
    XY = np.conj(X) * Y
    U, V = 2 * XY.real, 2 * XY.imag
    for s, w in ((st_, "to_stokes"), (st_lin, "to_linear().to_stokes()"), (st_cir, "to_circular().to_stokes()")):
        sv = arr(s).astype(np.float64)
        for k, (name, ref) in enumerate(zip("IQUV", (I, Q, U, V))):
            close(sv[:, :, k], ref, "%s: Stokes %s" % (w, name), ptol)
    sv = arr(st_).astype(np.float64)
    check(np.all(sv[:, :, 0] >= 0), "Stokes I negative")
    close(sv[:, :, 0] ** 2, sv[:, :, 1] ** 2 + sv[:, :, 2] ** 2 + sv[:, :, 3] ** 2, "I^2 != Q^2+U^2+V^2", 4 * rt * float(power.max()) ** 2 if power.size else 0)
    close(arr(inten).astype(np.float64).sum(axis=2), sv[:, :, 0], "Stokes I != to_intensity summed over polarisations", ptol)
    # component access by name
    with lib("stokes component access"):
        for k, name in enumerate("IQUV"):
            comp, comp2 = st_[name], getattr(st_, "stokes" + name)
            check(type(comp) is pb.IntensitySignal, "s[{!r}] is a {}", name, type(comp).__name__)
            check(bits_equal(arr(comp), arr(st_)[:, :, k]) and bits_equal(arr(comp2), arr(st_)[:, :, k]), "s[{!r}] is not component {}", name, k)
    if case["dask"]:
        # the SAME Dask array read in both bases, converted in opposite directions, everything evaluated in ONE graph: every result must
        # still be its own conversion (task names must tell the conversions apart)
        import dask

        other = "circular" if spec["pol"] == "linear" else "linear"

        def four(sig):
            so = type(sig).like(sig, pol_type=other)
            conv = (lambda q: q.to_circular()) if spec["pol"] == "linear" else (lambda q: q.to_linear())
            conv_o = (lambda q: q.to_linear()) if other == "circular" else (lambda q: q.to_circular())
            return [conv(sig), conv_o(so), sig.to_stokes(), so.to_stokes()]

        with lib("conversions of one Dask array read in both bases"):
            lazy = four(z)
            outs = dask.compute(*[q.data for q in lazy], scheduler="synchronous")
            refs = [np.asarray(q.data) for q in four(G.build(spec, data=data.copy()))]
        for o, r, w in zip(outs, refs, ("conversion", "opposite conversion of the same array read in the other basis", "to_stokes",
                                        "to_stokes of the same array read in the other basis")):
            close(np.asarray(o).astype(np.complex128), r.astype(np.complex128), "computed in one graph: " + w, 4 * max(atol, ptol))
        stt.label("joint_graph_both_bases")
    # ... and only by name: anything else is refused rather than answered with some component
    for bad in ("", "IQ", "QU", "UV", "IQUV", "i", "X", "II", "VI", " I"):
        must_raise("Stokes component %r" % bad, lambda: st_[bad], (KeyError, IndexError, ValueError, TypeError))
    kdn = case["kind"]
    if kdn in ("pureL", "pureR") and power.size and power.max() > 0:
        sgn = 1 if kdn == "pureL" else -1
        close(sv[:, :, 3], sgn * sv[:, :, 0], "pure %s input must give V = %+d I" % (kdn[-1], sgn), ptol)
    nt = bool(np.any((X.real != 0) & (X.imag != 0) & (Y.real != 0) & (Y.imag != 0) & (np.abs(X) != np.abs(Y))))
    stt.nt(nt)
    stt.label("kind_" + kdn)
    stt.label("basis_" + spec["pol"])
    stt.label("dtype_" + spec["dtype"])
    stt.label("dask_" + case.get("chunking", "half") if case["dask"] else "numpy")
    stt.label("trailing_%d" % (len(spec["sshape"]) - 2))
    if len(spec["sshape"]) > 2:
        stt.label("trailing_last_%d" % spec["sshape"][-1])


# -- call sequences on one object (aliasing / in-place work between conversions) ---------------------------


@st.composite
def seq_case(draw):
    base = draw(dp_case())
    base["dask"] = False
    ops = draw(st.lists(st.sampled_from(["to_stokes", "to_linear", "to_circular", "to_intensity", "chain", "inplace_scale", "inplace_add", "set_pol", "refused_assignment"]),
                        min_size=2, max_size=6))
    return {"base": base, "ops": ops, "dask_too": draw(st.booleans()), "pick": draw(st.integers(0, 50))}


def run_seq(case, stt):
    spec, data, X, Y = mk(case["base"])
    z = G.build(spec, data=data.copy(), chunks=(tuple(max(1, k // 2) for k in data.shape) if case.get("dask_too") else None))
    stt.label("dask" if case.get("dask_too") else "numpy")
    first = {}
    data = data.copy()
    pol = spec["pol"]  # the basis the object is in, by the history of valid assignments (the model; never read back from the object)
    for op in case["ops"]:
        if op in ("inplace_scale", "inplace_add", "set_pol", "refused_assignment"):
            # sanctioned changes of the object between conversions: later conversions must describe the CURRENT samples / basis
            with lib(op):
                if op == "inplace_scale":
                    z *= 2
                    data = data * 2
                elif op == "inplace_add":
                    np.add(z, 1, out=z)
                    data = data + 1
                elif op == "refused_assignment":
                    G.bad_assign(z, len(first) * 5 + len(case["ops"]) + case["ops"].index(op) + case.get("pick", 0), prefer="pol_type")
                else:
                    pol = "circular" if pol == "linear" else "linear"
                    z.pol_type = pol
            check(z.pol_type == pol, "after {}: pol_type reads {!r}, the last valid assignment was {!r}", op, z.pol_type, pol)
            twin = G.build(dict(spec, pol=pol), data=data.copy())
            for name in ("to_stokes", "to_linear", "to_circular", "to_intensity"):
                with lib(name + " after " + op):
                    got, ref = arr(getattr(z, name)()), arr(getattr(twin, name)())
                check(bits_equal(got, ref), "{} after {} differs from the same conversion of a fresh signal with the current samples and basis "
                      "(sequence {})", name, op, case["ops"])
            first = {}
            stt.label("changed_between_conversions")
            continue
        with lib(op):
            if op == "chain":
                r = arr(z.to_linear().to_circular().to_stokes())
            else:
                r = arr(getattr(z, op)())
        if op in first:
            check(bits_equal(first[op], r), "{} on the same signal gives a different result the second time (sequence {})", op, case["ops"])
        else:
            first[op] = r.copy()
        check(bits_equal(np.asarray(z.data), data), "{} modified the signal it was called on", op)
    stt.nt(len(set(case["ops"])) < len(case["ops"]))
    stt.label("basis_" + spec["pol"])


@st.composite
def huge_case(draw):
    n = draw(st.sampled_from([65535, 65536, 65537, 65538, 131073, 100000]))
    spec = draw(G.signal_spec(classes=["DualPolarizationSignal"], nmin=n, nmax=n, nchan_max=1, max_trailing=0, data_kinds=("noise",)))
    spec["n"], spec["sshape"] = n, [1, 2]
    return {"sig": spec, "kind": "noise", "scale": 1.0, "dask": False}


def run_err(spec, stt):
    import pulsarbat as pb

    spec = dict(spec)
    bad = spec.pop("pol")
    must_raise("invalid pol_type", lambda: G.build(dict(spec, pol="elliptical")), (ValueError,))
    z = G.build(dict(spec, pol=bad))
    must_raise("assigning an invalid pol_type", lambda: setattr(z, "pol_type", "X"), (ValueError,))
    stt.nt()


SUBS = [
    Sub("conversions", dp_case(), run_dp,
        "dual-pol signals in both bases, c8/c16, nchan 1..5, 0..2 trailing dims, NumPy/Dask, data {noise, pure X/Y/L/R, zeros, mixed "
        "scales}, amplitude scales 1e-10..1e8; for Dask data also: the same array read in both bases, converted in opposite directions, all results "
        "computed in one graph; non-trivial = a sample with all four of Re/Im X, Y non-zero and |X| != |Y|",
        quick=1500, thorough=30000, pieces_quick=4),
    Sub("long_signals", huge_case(), run_dp,
        "the same conversion checks on signals of 65535..131073 samples (block boundaries at 2^16); non-trivial as above", quick=8, thorough=60,
        pieces_quick=2, pieces_thorough=6),
    Sub("call_sequences", seq_case(), run_seq,
        "2..6 steps on the same object (NumPy or Dask): conversions -- each repeated call must give bit-identical results and leave the object "
        "untouched -- interleaved with z *= 2, np.add(z, 1, out=z) and pol_type assignment, after which every conversion must equal that of a fresh "
        "signal holding the current samples and basis; "
        "non-trivial = some conversion repeated", quick=400, thorough=8000),
    Sub("pol_type_refusals", G.signal_spec(classes=["DualPolarizationSignal"], nmin=1, nmax=4, nchan_max=2, max_trailing=0), run_err,
        "pol_type outside {linear, circular} raises at construction and assignment", quick=30, thorough=300, pieces_quick=1),
]

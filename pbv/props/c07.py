"""C07 -- Phase arithmetic keeps two-double precision for every operand kind."""

import math
import operator
from fractions import Fraction as F

import numpy as np
import astropy.units as u
from hypothesis import strategies as st

from ..core import Sub, check, lib, Violation
from .. import oracle as O, gen as G

TWO52 = F(1, 2**52)
K2_SEEN = []
ASSUMPTIONS = [
    "oracle: exact rational arithmetic on the operands' float values (Phase value = Fraction(int) + Fraction(frac))",
    "tolerance 2^-52 cycles absolute; every generated expression has an exact result of magnitude <= 2^52",
    "floor-division family: divisors are angular (cycle Quantities, or Phases whose value is a single double); remainder range widened by "
    "2^-52 at both ends; |quotient| <= 2^52",
    "sin/cos/exp(i phase): compared with the longdouble function of 2 pi frac, absolute tolerance 1e-15",
]

SPECIAL_FRAC = [0.0, 0.5, -0.5, 0.25, -0.25, 5e-324, -5e-324, 2.0**-60, -(2.0**-60), 0.49999999999999994, -0.49999999999999994, 1e-17, -1e-17,
                0.1, -0.3, 1.0 / 3.0]


def counts(max_exp=52):
    exps = [e for e in (0, 1, 5, 10, 20, 30, 33, 40, 45, 50, 51, 52) if e <= max_exp]
    return st.tuples(st.sampled_from(exps), st.floats(0, 1), st.sampled_from([-1, 1])).map(
        lambda t: t[2] * int(t[1] * (2 ** t[0])))


def fracs(unnormalised=False):
    base = st.one_of(st.sampled_from(SPECIAL_FRAC), st.floats(-0.5, 0.5, allow_nan=False), st.floats(-1e-10, 1e-10))
    if unnormalised:
        return st.one_of(base, st.floats(-3.0, 3.0, allow_nan=False), st.integers(-4, 4).map(lambda k: k / 2))
    return base


@st.composite
def phase_spec(draw, max_exp=51, allow_imag=True, shapes=((), (), (3,), (2, 2), (1, 3)), unnormalised=False):
    shape = list(draw(st.sampled_from(list(shapes))))
    n = int(np.prod(shape)) if shape else 1
    c = [draw(counts(max_exp)) for _ in range(n)]
    f = [draw(fracs(unnormalised)) for _ in range(n)]
    return {"shape": shape, "count": c, "frac": f, "imag": bool(allow_imag and draw(st.integers(0, 5)) == 0)}


def mk_phase(ps):
    import pulsarbat as pb

    c = np.array(ps["count"], dtype=np.float64).reshape(ps["shape"])
    f = np.array(ps["frac"], dtype=np.float64).reshape(ps["shape"])
    if ps["imag"]:
        c, f = c * 1j, f * 1j
    if not ps["shape"]:
        c, f = c[()], f[()]
    with lib("Phase(count, frac)"):
        return pb.Phase(c, f)


def exact_vals(ps):
    return [F(c) + F(f) for c, f in zip(ps["count"], ps["frac"])]


def is_phase(p, what, cls=None):
    import pulsarbat as pb

    check(type(p) is (cls or pb.Phase), "{}: result is {} -- degraded from a two-part Phase", what, type(p).__name__)
    v = np.asarray(p.view(np.ndarray))
    check(v.dtype.names == ("int", "frac"), "{}: dtype {} is not the two-double structure", what, v.dtype)
    i, f = v["int"].ravel(), v["frac"].ravel()
    check(np.all(i == np.rint(i)), "{}: count part {} is not integral", what, i)
    # known finding K2 (known_findings.json): one ulp beyond 1/2 can occur; anything further out is still a violation
    check(np.all(np.abs(f) <= 0.5 + 1.2e-16), "{}: fraction {!r} outside [-1/2, 1/2]", what, f)
    if np.any(np.abs(f) > 0.5):
        K2_SEEN.append(what)


def compare(p, expected, what, imag=False, tol=TWO52, shape=None, cls=None):
    is_phase(p, what, cls)
    check(bool(p.imaginary) == bool(imag) or all(e == 0 for e in expected), "{}: imaginary flag {} (expected {})", what, p.imaginary, imag)
    got = O.phase_fractions(p)
    if shape is not None:
        check(tuple(p.shape) == tuple(shape), "{}: shape {} != {}", what, p.shape, tuple(shape))
    check(len(got) == len(expected), "{}: {} elements, expected {}", what, len(got), len(expected))
    for g, e in zip(got, expected):
        d = abs(g - e)
        check(d <= tol, "{}: got {} + {}, exact {}; off by {:.3g} cycles (> 2^-52 = 2.2e-16)", what, float(g.numerator // g.denominator),
              float(g - g.numerator // g.denominator), _fmt(e), float(d))


def _fmt(e):
    i = math.floor(e + F(1, 2))
    return "%d%+.17g" % (i, float(e - i))


def bcast(vals, shape, to):
    a = np.empty(len(vals), dtype=object)
    a[:] = vals
    return list(np.broadcast_to(a.reshape(shape), to).ravel())


# -- operands -------------------------------------------------------------------------------------------

NUM_KINDS = ["pyint", "pyfloat", "npfloat", "npint", "arr0", "arr", "qdimless", "npfloat32", "npint32", "list", "qscaled", "pycomplex_real",
             "npcomplex_real", "npfloat16"]  # (the last two: a real number held in a complex type, e.g. complex(0.5, 0))
# dimensionless Quantities in a SCALED unit: the factor k written as (k / scale) [unit]; only (k, unit) pairs whose conversion to the unscaled
# value is exact in doubles are used (so that the exact factor is not in doubt)
SCALED_UNITS = {"percent": (u.percent, 100.0), "MHz/GHz": (u.MHz / u.GHz, 1000.0), "milli": (u.Unit(1e-3), 1000.0)}


def scaled_quantity(k, which):
    unit, mult = SCALED_UNITS[which]
    qq = (k * mult) * unit
    if float(qq.to_value(u.dimensionless_unscaled)) != k:
        return None
    return qq


@st.composite
def number_operand(draw, shape_of, max_abs_log2=6, nonzero=False, kinds=NUM_KINDS, allow_imag=True):
    """dimensionless factor/divisor"""
    kind = draw(st.sampled_from(kinds))
    if kind in ("pyint", "npint", "npint32"):
        v = draw(st.integers(-(2**max_abs_log2), 2**max_abs_log2))
        if nonzero and v == 0:
            v = 3
        vals, shape = [v], []
    else:
        gen = st.one_of(st.integers(-(2**max_abs_log2), 2**max_abs_log2).map(float),
                        st.floats(-(2.0**max_abs_log2), 2.0**max_abs_log2, allow_nan=False),
                        st.sampled_from([v for v in (0.5, 0.25, 1 / 3, 1e-3, 3.0, -1.0, 2.0, 7.0, 0.1, 2.0**-10) if abs(v) <= 2.0**max_abs_log2]))
        if kind == "npfloat32":
            gen = gen.map(lambda v: float(np.float32(v)))
        if kind == "npfloat16":
            gen = gen.map(lambda v: float(np.float16(v)) if np.isfinite(np.float16(v)) else 1.5)
        if kind in ("arr", "list"):
            shape = list(draw(st.sampled_from([(3,), (1,), (2, 2), (1, 3), (2, 1)])))
            # must broadcast with the phase shape
            if shape_of:
                # same shape, broadcast-from-below, or STRICTLY LARGER than the phase (the phase is then broadcast up)
                shape = list(draw(st.sampled_from([tuple(shape_of), (1,) * len(shape_of), tuple(shape_of[-1:]), (2,) + tuple(shape_of),
                                                   (2,) + (1,) * len(shape_of), (3, 1) + tuple(shape_of[-1:])])))
                if len(shape_of) == 1 and shape_of[0] == 1 and draw(st.booleans()):
                    shape = [4]
        else:
            shape = []
        n = int(np.prod(shape)) if shape else 1
        vals = [draw(gen) for _ in range(n)]
        if nonzero:
            vals = [v if abs(v) >= 2.0**-12 else 3.0 for v in vals]
    if nonzero and kind in ("npfloat32", "npfloat16"):
        vals = [v if abs(v) >= 2.0**-12 else 3.0 for v in vals]
    imag = bool(allow_imag and draw(st.integers(0, 6)) == 0 and kind in ("pyfloat", "arr", "arr0"))
    out = {"kind": kind, "vals": vals, "shape": shape, "imag": imag}
    if kind == "qscaled":
        out["unit"] = draw(st.sampled_from(sorted(SCALED_UNITS)))
    return out


def mk_number(op):
    k, vals = op["kind"], op["vals"]
    if k == "pyint":
        return int(vals[0])
    if k == "npint":
        return np.int64(vals[0])
    if k == "npint32":
        return np.int32(vals[0])
    if k == "npfloat32":
        return np.float32(vals[0])
    if k == "npfloat16":
        return np.float16(vals[0])
    if k == "pycomplex_real":
        return complex(float(vals[0]), 0.0)
    if k == "npcomplex_real":
        return np.complex128(complex(float(vals[0]), 0.0))
    if k == "list":
        return np.array(vals, dtype=np.float64).reshape(op["shape"]).tolist()
    if k == "pyfloat":
        return complex(0, vals[0]) if op["imag"] else float(vals[0])
    if k == "npfloat":
        return np.float64(vals[0])
    a = np.array(vals, dtype=np.float64).reshape(op["shape"])
    if op["imag"]:
        a = a * 1j
    if k == "arr0":
        return np.array(a.ravel()[0])
    if k == "qdimless":
        return a.ravel()[0] * u.dimensionless_unscaled
    if k == "qscaled":
        qq = scaled_quantity(float(vals[0]), op.get("unit", "percent"))
        return float(vals[0]) * u.dimensionless_unscaled if qq is None else qq
    return a


def number_exact(op):
    if op["kind"] in ("pyint", "npint", "pyfloat", "npfloat", "arr0", "qdimless", "npint32", "npfloat32", "qscaled", "pycomplex_real", "npcomplex_real", "npfloat16"):
        return [F(op["vals"][0])], []
    return [F(v) for v in op["vals"]], op["shape"]


# -- 1. construction ----------------------------------------------------------------------------------------


@st.composite
def construct_case(draw):
    form = draw(st.sampled_from(["one_float", "two", "two", "two_q", "int", "arr_two", "from_phase", "npscalar", "imag_two", "class_change", "class_change"]))
    shape = [] if form != "arr_two" else list(draw(st.sampled_from([(3,), (2, 2)])))
    n = int(np.prod(shape)) if shape else 1
    a = [float(draw(counts(51))) + (draw(fracs(True)) if draw(st.booleans()) else 0.0) for _ in range(n)]
    b = [draw(st.one_of(fracs(True), counts(40).map(float))) for _ in range(n)]
    return {"form": form, "a": a, "b": b, "shape": shape, "imag": draw(st.booleans()),
            "change": draw(st.sampled_from(["sub_to_base", "base_to_sub", "view_base", "view_sub", "sub_to_base_plus", "copy_sub", "pickle_sub", "subok"]))}


def run_construct(case, stt):
    import pulsarbat as pb

    a, b, form = case["a"], case["b"], case["form"]
    imag, cls = False, None
    with lib("Phase(...) construction"):
        if form == "imag_two":
            # a purely imaginary phase from two imaginary numbers
            p, ex, imag = pb.Phase(a[0] * 1j, b[0] * 1j), [F(a[0]) + F(b[0])], True
        elif form == "class_change":
            # an instance of a user-defined subclass of Phase handed to Phase (and the other way round, and as views): same value, same
            # real/imaginary kind, class as asked for
            import copy
            import pickle

            imag, j, ch = bool(case.get("imag")), (1j if case.get("imag") else 1), case.get("change", "sub_to_base")
            ex = [F(a[0]) + F(b[0])]
            sub, base = G.MyPhase(a[0] * j, b[0] * j), pb.Phase(a[0] * j, b[0] * j)
            check(type(sub) is G.MyPhase, "MyPhase(...) is a {}", type(sub).__name__)
            if ch == "sub_to_base":
                p = pb.Phase(sub)
            elif ch == "sub_to_base_plus":
                p, ex = pb.Phase(sub, b[0] * j), [ex[0] + F(b[0])]
            elif ch == "base_to_sub":
                p, cls = G.MyPhase(base), G.MyPhase
            elif ch == "view_base":
                p = sub.view(pb.Phase)
            elif ch == "view_sub":
                p, cls = base.view(G.MyPhase), G.MyPhase
            elif ch == "copy_sub":
                p, cls = copy.deepcopy(sub) if a[0] % 2 else copy.copy(sub), G.MyPhase
            elif ch == "pickle_sub":
                p, cls = pickle.loads(pickle.dumps(sub)), G.MyPhase
            else:
                p, cls = pb.Phase(sub, subok=True), G.MyPhase
            stt.label("class_change_" + ch + ("_imag" if imag else "_real"))
        elif form == "one_float":
            p, ex = pb.Phase(a[0]), [F(a[0])]
        elif form == "int":
            p, ex = pb.Phase(int(a[0])), [F(int(a[0]))]
        elif form == "npscalar":
            p, ex = pb.Phase(np.float64(a[0]), np.float32(np.float32(b[0]))), [F(a[0]) + F(float(np.float32(b[0])))]
        elif form == "two":
            p, ex = pb.Phase(a[0], b[0]), [F(a[0]) + F(b[0])]
        elif form == "two_q":
            p, ex = pb.Phase(a[0] * u.cycle, b[0] * u.cycle), [F(a[0]) + F(b[0])]
        elif form == "from_phase":
            p0 = pb.Phase(a[0], b[0])
            p, ex = pb.Phase(p0, b[0]), [F(a[0]) + 2 * F(b[0])]
        else:
            A, B = np.array(a).reshape(case["shape"]), np.array(b).reshape(case["shape"])
            p, ex = pb.Phase(A, B), [F(x) + F(y) for x, y in zip(a, b)]
    compare(p, ex, "Phase(%s%s)" % (form, ":" + case.get("change", "") if form == "class_change" else ""), imag=imag, cls=cls)
    big = any(abs(e) >= 2**33 and e.denominator != 1 for e in ex)
    stt.nt(big)
    stt.label("form_" + form)
    stt.label("unnormalised" if any(abs(x) > 0.5 for x in b) else "normalised")


# -- 2. add / subtract / negate / abs -----------------------------------------------------------------------------


@st.composite
def addsub_case(draw):
    p = draw(phase_spec(max_exp=51))
    okind = draw(st.sampled_from(["phase", "phase", "pyint", "pyfloat", "npfloat", "arr", "qcycle", "arr0", "qfracphase", "qlongitude"]))
    q = draw(phase_spec(max_exp=51, allow_imag=False, shapes=((), tuple(p["shape"]), tuple(p["shape"][-1:]))))
    q["imag"] = p["imag"]
    if okind in ("pyint", "pyfloat", "npfloat", "arr0"):
        q["shape"], q["count"], q["frac"] = [], q["count"][:1], q["frac"][:1]
    if okind == "pyint":
        q["frac"] = [0.0]
    return {"p": p, "q": q, "okind": okind, "op": draw(st.sampled_from(["add", "sub", "radd", "rsub", "iadd", "isub", "out"])),
            "unary": draw(st.sampled_from(["neg", "abs", "pos", "fabs"]))}


def other_operand(q, okind):
    """operand holding the (single double per element) value int+frac -- or the Phase itself"""
    if okind == "phase":
        qq = mk_phase(q)
        return qq, O.phase_fractions(qq)
    vals = [float(c + f) if abs(c) < 2**40 else float(c) for c, f in zip(q["count"], q["frac"])]
    ex = [F(v) for v in vals]
    if okind == "pyint":
        return int(q["count"][0]), [F(int(q["count"][0]))]
    if okind == "pyfloat":
        return (complex(0, vals[0]) if q["imag"] else vals[0]), ex[:1]
    if okind == "npfloat":
        if q["imag"]:
            return np.complex128(complex(0, vals[0])), ex[:1]
        return np.float64(vals[0]), ex[:1]
    if okind in ("qfracphase", "qlongitude") and not q["imag"]:
        # other Angle subclasses as operands: the fractional part of a Phase (FractionalPhase), an astropy Longitude; their exact value is
        # whatever the object holds after its own wrapping
        import pulsarbat as pb
        from astropy.coordinates import Longitude

        fr = np.array(q["frac"], dtype=float).reshape(q["shape"])
        obj = pb.Phase(np.zeros_like(fr), fr).frac if okind == "qfracphase" else Longitude(fr * u.cycle)
        return obj, [F(float(v)) for v in np.ravel(obj.to_value(u.cycle))]
    if okind in ("qfracphase", "qlongitude"):
        okind = "qcycle"
    a = np.array(vals).reshape(q["shape"])
    if q["imag"]:
        a = a * 1j
    if okind == "arr0":
        return np.array(a.ravel()[0]), ex[:1]
    if okind == "qcycle":
        return a * u.cycle, ex
    return a, ex


def run_addsub(case, stt):
    ps, qs = case["p"], case["q"]
    p = mk_phase(ps)
    if ps["imag"] and case["okind"] == "pyint":
        case = dict(case, okind="pyfloat")  # a real int cannot be added to an imaginary phase
    other, qex = other_operand(qs, case["okind"])
    pex = O.phase_fractions(p)  # the operand is the constructed Phase (construction itself is sub-check 1)
    qshape = [] if case["okind"] in ("pyint", "pyfloat", "npfloat", "arr0") else qs["shape"]
    out_shape = np.broadcast_shapes(tuple(ps["shape"]), tuple(qshape))
    A, B = bcast(pex, ps["shape"], out_shape), bcast(qex, qshape, out_shape)
    op = case["op"]
    what = "phase %s %s" % (op, case["okind"])
    with lib(what):
        if op == "add":
            r, ex = p + other, [a + b for a, b in zip(A, B)]
        elif op == "radd":
            r, ex = other + p, [a + b for a, b in zip(A, B)]
        elif op == "sub":
            r, ex = p - other, [a - b for a, b in zip(A, B)]
        elif op == "rsub":
            r, ex = other - p, [b - a for a, b in zip(A, B)]
        elif op in ("iadd", "isub"):
            if tuple(out_shape) != tuple(ps["shape"]):
                op = "add"
                r, ex = p + other, [a + b for a, b in zip(A, B)]
            else:
                r = p.copy()
                keep = r
                if op == "iadd":
                    r += other
                    ex = [a + b for a, b in zip(A, B)]
                else:
                    r -= other
                    ex = [a - b for a, b in zip(A, B)]
                check(r is keep, "{}: in-place operator rebound the name", what)
        else:
            import pulsarbat as pb

            tgt = pb.Phase(np.zeros(out_shape), np.zeros(out_shape))
            if ps["imag"]:
                tgt = tgt * 1j
            r = np.add(p, other, out=tgt)
            check(r is tgt, "{}: np.add(..., out=phase) did not return the given Phase", what)
            ex = [a + b for a, b in zip(A, B)]
    compare(r, ex, what, imag=ps["imag"], shape=out_shape)
    # unary
    un = case["unary"]
    with lib("unary " + un):
        if un == "neg":
            r2, ex2 = -p, [-a for a in pex]
        elif un == "pos":
            r2, ex2 = +p, pex
        elif un == "abs":
            r2, ex2 = abs(p), [abs(a) for a in pex]
        else:
            r2, ex2 = np.fabs(p), [abs(a) for a in pex]
    if un in ("abs", "fabs") and ps["imag"]:
        pass  # |i x| is not pinned down by the property
    else:
        compare(r2, ex2, un + "(phase)", imag=ps["imag"], shape=ps["shape"])
    stt.nt(any(abs(a) >= 2**33 and a.denominator != 1 for a in pex))
    stt.label("other_" + case["okind"])
    stt.label("op_" + op)
    stt.label("imag" if ps["imag"] else "real")


# -- 3. multiply / divide by dimensionless numbers --------------------------------------------------------------------


@st.composite
def muldiv_case(draw):
    lg = draw(st.integers(0, 10))
    p = draw(phase_spec(max_exp=51 - lg))
    k = draw(number_operand(p["shape"], max_abs_log2=lg, nonzero=True))
    op = draw(st.sampled_from(["mul", "rmul", "div", "imul", "idiv", "mul_out"]))
    if op in ("mul", "rmul", "imul", "mul_out") and not k["imag"] and k["kind"] in ("pyfloat", "npfloat", "arr0", "pycomplex_real", "npcomplex_real") \
            and draw(st.integers(0, 3)) == 0:
        k["vals"] = [draw(st.sampled_from([2.0**-50, -(2.0**-45), 1e-15, 3e-14, 2.0**-30]))]  # a tiny factor is a factor all the same
    return {"p": p, "k": k, "op": op, "lg": lg, "failed_first": draw(st.sampled_from([None, None, "imul_imag", "imul_real", "idiv_imag", "iadd_shape"]))}


def pb_phase_like(arr):
    import pulsarbat as pb

    return pb.Phase(np.real(arr) * 0.0, np.real(arr) * 0.125)


def run_muldiv(case, stt):
    ps, ks = case["p"], case["k"]
    p = mk_phase(ps)
    k = mk_number(ks)
    kex, kshape = number_exact(ks)
    pex = O.phase_fractions(p)
    ff = case.get("failed_first")
    if ff:
        # a FAILED in-place call first (an operand whose shape does not broadcast into the phase): it raises, and leaves the phase exactly as it
        # was -- values and real/imaginary kind -- so that the valid call that follows means what it says
        before = (p.view(np.ndarray).copy(), bool(p.imaginary))
        bad = np.ones(tuple(ps["shape"]) + (3,) if ps["shape"] else (3,)) * (1j if ff.endswith("imag") else 1.0)
        try:
            if ff.startswith("imul"):
                p *= bad
            elif ff.startswith("idiv"):
                p /= bad
            else:
                p += pb_phase_like(bad)
            raised = False
        except Exception:
            raised = True
        check(raised, "an in-place operation whose operand of shape {} cannot broadcast into a phase of shape {} did not raise", bad.shape, tuple(ps["shape"]))
        check(np.array_equal(p.view(np.ndarray), before[0]) and bool(p.imaginary) == before[1], "a failed in-place {} left the phase changed: imaginary {} -> {}",
              ff, before[1], bool(p.imaginary))
        stt.label("failed_call_first")
    op = case["op"]
    if op in ("div", "idiv"):
        # keep |result| <= 2^52: divisor magnitude >= 2^-lg... choose counts accordingly (counts are < 2^(51-lg), |k| >= 2^-12)
        if any(abs(a / b) > 2**52 for a in pex for b in kex):
            op = "mul"
    out_shape = np.broadcast_shapes(tuple(ps["shape"]), tuple(kshape))
    A, B = bcast(pex, ps["shape"], out_shape), bcast(kex, kshape, out_shape)
    both_imag = ps["imag"] and ks["imag"]
    res_imag = ps["imag"] ^ ks["imag"]
    what = "phase %s %s%s" % (op, ks["kind"], " (imaginary)" if ks["imag"] else "")
    with lib(what):
        if op == "mul":
            r = p * k
        elif op == "rmul":
            r = k * p
        elif op == "div":
            r = p / k
        elif op in ("imul", "idiv") and tuple(out_shape) == tuple(ps["shape"]):
            r = p.copy()
            keep = r
            if op == "imul":
                r *= k
            else:
                r /= k
            check(r is keep, "{}: in-place operator rebound the name", what)
        elif op == "mul_out":
            import pulsarbat as pb

            tgt = pb.Phase(np.ones(out_shape), np.full(out_shape, 0.25))
            if ps["imag"]:
                tgt = tgt * 1j  # (the target's own kind must not leak into the result)
            r = np.multiply(p, k, out=tgt)
            check(r is tgt, "{}: np.multiply(..., out=phase) did not return the given Phase", what)
            op = "mul"
        else:
            op = "mul"
            r = p * k
    if op in ("mul", "rmul", "imul"):
        ex = [a * b for a, b in zip(A, B)]
        if both_imag:
            ex = [-e for e in ex]  # (i a)(i b) = -ab
    else:
        ex = [a / b for a, b in zip(A, B)]
        if ks["imag"] and not ps["imag"]:
            ex = [-e for e in ex]  # a / (i b) = -i a/b
    compare(r, ex, what, imag=res_imag, shape=out_shape)
    stt.nt(any(abs(a) >= 2**33 and a.denominator != 1 for a in pex) or any(abs(e) >= 2**33 for e in ex))
    stt.label("k_" + ks["kind"])
    stt.label("op_" + op)
    stt.label("imag_phase" if ps["imag"] else "real_phase")
    stt.label("imag_factor" if ks["imag"] else "real_factor")


# -- 4. floor division, remainder, divmod ------------------------------------------------------------------------------

ANGLE_UNITS = {"qdeg": (u.deg, 360.0), "qhourangle": (u.hourangle, 24.0), "qarcmin": (u.arcmin, 21600.0)}


@st.composite
def fd_case(draw):
    p = draw(phase_spec(max_exp=51, allow_imag=False, shapes=((), (), (3,), (2, 2))))
    if draw(st.integers(0, 2)) == 0:
        # values a hair below / above a multiple of the divisor: fractions far below 1 ulp of the count
        p["frac"] = [draw(st.sampled_from([-1e-17, 1e-17, -5e-324, 5e-324, -(2.0**-60), 2.0**-60, -1e-5, 0.0, -(2.0**-14)])) for _ in p["frac"]]
    dkind = draw(st.sampled_from(["qcycle", "qcycle", "phase", "qarr", "qdeg", "qhourangle", "qarcmin", "phase_two_part"]))
    d = draw(st.sampled_from([1.0, 0.5, 0.25, 2.0, 3.0, 0.125, 7.0, 1.5, -1.0, -0.5, 10.0, 1024.0, 0.1, 1 / 3, 2.0**-10]))
    if draw(st.integers(0, 3)) == 0:
        # dividends a hair off a multiple of the divisor: m*d + tiny, |tiny| between 2^-52 and an ulp of d (and beyond)
        d = draw(st.sampled_from([1.0, 2.0, 3.0, 7.0, 10.0, 1024.0, -1024.0, 4096.0, 0.5, -3.0]))
        tiny = st.sampled_from([-1e-17, 1e-17, -1e-15, 1e-15, -1.3e-14, 1.3e-14, -3e-13, 3e-13, -(2.0**-45), 2.0**-45, -1e-12])
        ms = st.integers(-3, 3)
        p["count"] = [float(draw(ms) * d) for _ in p["count"]]
        p["frac"] = [draw(tiny) for _ in p["frac"]]
        p["near_multiple"] = True
    if dkind == "qarr" and p["shape"]:
        n = int(np.prod(p["shape"]))
        dv = [draw(st.sampled_from([1.0, 0.5, 0.25, 2.0, 3.0, -1.0, 1.5])) for _ in range(n)]
    else:
        dkind = "qcycle" if dkind == "qarr" else dkind
        dv = [d]
    out = {"p": p, "dkind": dkind, "d": dv, "op": draw(st.sampled_from(["floordiv", "mod", "divmod", "np_divmod", "imod", "rem_out_self", "rem_out_other", "divmod_out_self"]))}
    if dkind == "phase_two_part":
        # a divisor that needs both of its parts: a large count plus a fraction (one double holds 2^30 + 0.3 to 2e-7 only)
        out["d"] = [float(draw(st.sampled_from([-1, 1])) * 2.0 ** draw(st.integers(20, 40)))]
        out["dfrac"] = draw(st.sampled_from([0.3, -0.3, 0.1234567, 1e-9, -0.4999, 0.25]))
    return out


def run_fd(case, stt):
    import pulsarbat as pb

    ps = case["p"]
    dv = case["d"]
    p = mk_phase(ps)
    pex = O.phase_fractions(p)
    # |q| <= 2^52
    if any(abs(a / F(d)) > 2**52 for a in pex for d in dv):
        stt.label("skip_quotient_too_large")
        return
    if case["dkind"] in ANGLE_UNITS:
        unit, per_cycle = ANGLE_UNITS[case["dkind"]]
        d = (dv[0] * per_cycle) * unit
        if float(d.to_value(u.cycle)) != dv[0]:  # (conversion not exact in doubles: the divisor itself would be in doubt)
            d = dv[0] * u.cycle
            case = dict(case, dkind="qcycle")
    elif case["dkind"] == "phase":
        d = pb.Phase(dv[0])
    elif case["dkind"] == "phase_two_part":
        d = pb.Phase(dv[0], case["dfrac"])
    elif case["dkind"] == "qarr":
        d = np.array(dv).reshape(ps["shape"]) * u.cycle
    else:
        d = dv[0] * u.cycle
    D = bcast([F(x) + F(case.get("dfrac", 0.0)) for x in dv], [] if len(dv) == 1 else ps["shape"], tuple(ps["shape"]))
    op = case["op"]
    what = "phase %s %s" % (op, case["dkind"])
    with lib(what):
        q = r = None
        p_in = p.copy()  # (the in-place forms below overwrite their dividend)
        if op == "floordiv":
            q = p // d
        elif op == "mod":
            r = p % d
        elif op == "divmod":
            q, r = divmod(p, d)
        elif op == "imod":
            r = p.copy()
            keep = r
            r %= d
            check(r is keep, "{}: in-place %= rebound the name", what)
        elif op == "rem_out_self":
            tgt = p.copy()
            r = np.remainder(tgt, d, out=tgt)
            check(r is tgt, "{}: np.remainder(p, d, out=p) did not return p", what)
        elif op == "rem_out_other":
            tgt = pb.Phase(np.ones(np.shape(p)), np.full(np.shape(p), 0.25))
            r = np.remainder(p, d, out=tgt)
            check(r is tgt, "{}: np.remainder(..., out=phase) did not return the given Phase", what)
        elif op == "divmod_out_self":
            tgt, qbuf = p.copy(), np.zeros(np.shape(p))
            q, r = np.divmod(tgt, d, out=(qbuf, tgt))
            check(r is tgt, "{}: np.divmod(p, d, out=(q, p)) did not return p as the remainder", what)
        else:
            q, r = np.divmod(p, d)
        check(np.array_equal(p.view(np.ndarray), p_in.view(np.ndarray)), "{}: the dividend was modified", what)
        # the others for mutual consistency
        q2, r2 = p // d, p % d
    q = q2 if q is None else q
    r = r2 if r is None else r
    is_phase(r, what + " remainder")
    qv = np.asarray(u.Quantity(q).to_value(u.one) if isinstance(q, u.Quantity) else q, dtype=np.float64).ravel()
    q2v = np.asarray(u.Quantity(q2).to_value(u.one), dtype=np.float64).ravel()
    rv, r2v = O.phase_fractions(r), O.phase_fractions(r2)
    check(len(qv) == len(pex) and len(rv) == len(pex), "{}: result shapes {} / {}", what, np.shape(q), r.shape)
    for a, dd, qq, rr, qq2, rr2 in zip(pex, D, qv, rv, q2v, r2v):
        check(qq == math.floor(qq), "{}: quotient {} not integral", what, qq)
        check(qq == qq2 and abs(rr - rr2) <= TWO52, "{}: //, % and divmod disagree: q {} vs {}, r {} vs {}", what, qq, qq2, float(rr), float(rr2))
        err = abs(F(qq) * dd + rr - a)
        check(err <= TWO52, "{}: q*d + r differs from the dividend {} by {:.3g} cycles (q={}, r={!r}, d={})", what, _fmt(a), float(err), qq,
              float(rr), float(dd))
        lo, hi = (F(0), dd) if dd > 0 else (dd, F(0))
        check(lo - TWO52 <= rr <= hi + TWO52, "{}: remainder {!r} outside [0, d) for dividend {} and divisor {} (exact floor quotient {})", what,
              float(rr), _fmt(a), float(dd), math.floor(a / dd))
    stt.nt(any(abs(a) >= 2**33 and a.denominator != 1 for a in pex) or any(0 < abs(f) < 1e-10 for f in ps["frac"]))
    stt.label("divisor_" + case["dkind"])
    stt.label("op_" + op)
    stt.label("tiny_fraction" if any(0 < abs(f) < 1e-10 for f in ps["frac"]) else "ordinary_fraction")
    if ps.get("near_multiple"):
        stt.label("near_multiple_of_divisor")


# -- 5. sin, cos, exp(i phase) depend on the fraction only ----------------------------------------------------------


@st.composite
def trig_case(draw):
    p = draw(phase_spec(max_exp=51, allow_imag=False))
    return {"p": p, "add": draw(counts(50)), "fn": draw(st.sampled_from(["sin", "cos", "exp", "tan"]))}


def run_trig(case, stt):
    ps = case["p"]
    p = mk_phase(ps)
    fr = np.array([float(O.phase_fraction(x)) - float(np.rint(float(O.phase_fraction(x)))) for x in [p]]) if False else None
    v = np.asarray(p.view(np.ndarray))
    frac = v["frac"].ravel().astype(O.LD)
    ang = O.TWO_PI_LD * frac
    fn = case["fn"]
    with lib(fn + "(phase)"):
        if fn == "sin":
            got, ref = np.sin(p), np.sin(ang)
        elif fn == "cos":
            got, ref = np.cos(p), np.cos(ang)
        elif fn == "tan":
            got, ref = np.tan(p), np.tan(ang)
        else:
            got, ref = np.exp(1j * p), np.cos(ang) + 1j * np.sin(ang)
        p2 = p + int(case["add"])
        if fn == "exp":
            got2 = np.exp(1j * p2)
        else:
            got2 = getattr(np, fn)(p2)
    g = np.asarray(u.Quantity(got).to_value(u.one)).ravel()
    g2 = np.asarray(u.Quantity(got2).to_value(u.one)).ravel()
    for a, b, r in zip(g, g2, np.asarray(ref).ravel()):
        if fn == "tan" and abs(r) > 1e3:
            continue
        # 2 pi frac is formed in float64 (argument error ~ pi * eps): the function's own error is that times its derivative
        tol = 1e-15 * (1.0 + abs(complex(r)) ** 2 if fn == "tan" else 1.0)
        check(abs(complex(a) - complex(r)) <= tol, "{}(phase) = {!r}, function of 2 pi frac = {!r}", fn, a, complex(r))
        check(abs(complex(a) - complex(b)) <= tol, "{}(phase + {}) = {!r} differs from {}(phase) = {!r}", fn, case["add"], b, fn, a)
    stt.nt(any(abs(c) >= 2**33 for c in ps["count"]) and any(f != 0 for f in ps["frac"]))
    stt.label("fn_" + fn)


# -- long arrays (block-wise implementations) ---------------------------------------------------------------------------


@st.composite
def long_case(draw):
    n = draw(st.sampled_from([65535, 65536, 65537, 70001]))
    return {"n": n, "seed": draw(st.integers(0, 10**6)), "op": draw(st.sampled_from(["add", "sub", "mul", "div", "neg", "mul_arr", "add_scalar", "mod"])),
            "big": draw(st.sampled_from([0, 10**6, 2**40, 2**50]))}


def run_long(case, stt):
    import pulsarbat as pb

    n = case["n"]
    rng = np.random.default_rng(case["seed"])
    c1 = np.rint(rng.uniform(-1, 1, n) * max(case["big"], 3))
    f1 = rng.uniform(-0.5, 0.5, n)
    c2 = np.rint(rng.uniform(-1, 1, n) * max(case["big"], 3))
    f2 = rng.uniform(-0.5, 0.5, n)
    k = rng.choice([0.5, 2.0, 3.0, -1.5, 0.25], n)
    with lib("long Phase arrays"):
        p, q = pb.Phase(c1, f1), pb.Phase(c2, f2)
        op = case["op"]
        if op == "add":
            r = p + q
        elif op == "sub":
            r = p - q
        elif op == "mul":
            r = p * 3.0
        elif op == "div":
            r = p / 3.0
        elif op == "neg":
            r = -p
        elif op == "mul_arr":
            r = p * k
        elif op == "add_scalar":
            r = p + 7
        else:
            r = p % (1.0 * u.cycle)
    is_phase(r, "long " + op)
    check(r.shape == (n,), "long {}: shape {}", op, r.shape)
    idx = sorted(set(list(range(64)) + list(range(n - 64, n)) + list(range(65500, min(n, 65600))) + [int(i) for i in rng.integers(0, n, 600)]))
    pv, qv, rv = p.view(np.ndarray), q.view(np.ndarray), r.view(np.ndarray)
    for i in idx:
        a = F(float(pv["int"][i])) + F(float(pv["frac"][i]))
        b = F(float(qv["int"][i])) + F(float(qv["frac"][i]))
        g = F(float(rv["int"][i])) + F(float(rv["frac"][i]))
        e = {"add": a + b, "sub": a - b, "mul": a * 3, "div": a / 3, "neg": -a, "mul_arr": a * F(float(k[i])), "add_scalar": a + 7,
             "mod": a - math.floor(a)}[op]
        check(abs(g - e) <= TWO52, "long {} ({} elements): element {} is {} but exactly {}", op, n, i, _fmt(g), _fmt(e))
    stt.nt()
    stt.label("op_" + op)


SUBS = [
    Sub("construct", construct_case(), run_construct,
        "Phase(one number) / Phase(two numbers, unnormalised, scalars, NumPy scalars, arrays, cycle Quantities, Phase+number); non-trivial = "
        "|value| >= 2^33 with a non-zero fraction", quick=1500, thorough=40000),
    Sub("add_sub_unary", addsub_case(), run_addsub,
        "phase +/- {Phase, int, float, NumPy scalar, 0-d, n-d broadcast array, cycle Quantity, FractionalPhase, astropy Longitude} in both orders, "
        "in-place and out= forms, real and imaginary; negation, abs, fabs, positive; cases matching the open finding K3 (a Longitude as LEFT operand) "
        "are excluded by construction and counted; non-trivial = an operand with |count| >= 2^33 and a non-zero fraction", quick=2000,
        thorough=60000, pieces_quick=3,
        known=lambda case: "K3" if (case["okind"] == "qlongitude" and case["op"] in ("radd", "rsub") and not case["p"]["imag"]) else None),
    Sub("mul_div", muldiv_case(), run_muldiv,
        "phase * k, k * phase, phase / k for k in {int, float, NumPy scalars, 0-d and n-d arrays, dimensionless Quantity, imaginary factors}, "
        "in-place and out= forms; (i a)(i b) = -ab; non-trivial = |count| >= 2^33 with non-zero fraction, or |result| >= 2^33", quick=2000,
        thorough=60000, pieces_quick=3),
    Sub("floor_division", fd_case(), run_fd,
        "phase // d, phase % d, divmod, np.divmod for angular divisors (cycle Quantity scalar/array, Phase); q integral, q*d+r == dividend "
        "within 2^-52, r in [0,d), mutual consistency; non-trivial = |count| >= 2^33 with non-zero fraction or a fraction below 1e-10",
        quick=1500, thorough=40000, pieces_quick=3),
    Sub("long_arrays", long_case(), run_long,
        "Phase arrays of 65535..70001 elements: + - * / neg, array factors, scalar addition, remainder; elements at both ends, around 2^16 and "
        "600 random ones compared with exact rationals; all non-trivial", quick=24, thorough=400, pieces_quick=4),
    Sub("trig", trig_case(), run_trig,
        "sin/cos/tan(phase), exp(1j*phase) equal the function of 2 pi frac and are unchanged when an integer is added; non-trivial = |count| >= "
        "2^33 and a non-zero fraction", quick=800, thorough=20000),
]

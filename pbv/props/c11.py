"""C11 -- readers are position-faithful, stateless and agree with the underlying file."""

import math
import threading
from fractions import Fraction as F

import numpy as np
import astropy.units as u
from hypothesis import strategies as st
from hypothesis.stateful import rule, initialize, precondition

from ..core import Sub, MachineSub, HistoryMachine, Violation, check, lib, must_raise
from .. import oracle as O, gen as G, files as FL
from ..contract import contract, bits_equal

ASSUMPTIONS = [
    "what a file encodes = one direct baseband.open(...).read() of the whole file (squeeze as the reader uses it), mapped by the documented "
    "transformation (transpose to (time, channel, pol), conjugation / channel reversal for lower sideband, Hilbert conversion of real samples "
    "via the C19 reference on the same 2n block)",
    "GUPPI channel i is at OBSFREQ - OBSBW/2 + (i + 1/2) * CHAN_BW (GUPPI raw convention): output channel j must carry the file channel whose "
    "header frequency equals label j",
    "concurrency: (a) harness-owned interleavings -- baseband.open is replaced inside the check process by a proxy whose seek/read calls wait "
    "for their turn in a drawn schedule; (b) a free-running soak with 12 threads.  Not OS-timing exhaustive.",
]

KINDS = ["vdif_sample", "dada_sample", "guppi_sample", "stokes_sample", "vdif_real", "vdif_complex", "dada_complex", "guppi", "guppi", "dada_stokes",
         "dada_stokes"]


@st.composite
def file_cfg(draw):
    kind = draw(st.sampled_from(KINDS))
    cfg = {"kind": kind}
    if kind in ("vdif_real", "vdif_complex"):
        cfg.update(nthread=draw(st.sampled_from([1, 2, 4])), nchan=draw(st.sampled_from([1, 2])), spf=draw(st.sampled_from([32, 64])),
                   nframes=draw(st.sampled_from([8, 10])), seed=draw(st.integers(0, 1)))
        # start of the recording: an ordinary day, or a UTC day that ends with a leap second (86401 s long)
        t0 = draw(st.sampled_from(["2020-03-01T00:00:00", "2020-03-01T00:00:00", "2016-12-31T12:00:00", "2015-06-30T06:00:07"]))
        if t0 != "2020-03-01T00:00:00":
            cfg["t0"] = t0
    elif kind == "dada_complex":
        cfg.update(nchan=draw(st.sampled_from([1, 2, 3])), spf=draw(st.sampled_from([32, 64])), nframes=draw(st.sampled_from([3, 4])), seed=draw(st.integers(0, 1)))
    elif kind == "guppi":
        cfg.update(nchan=draw(st.sampled_from([2, 4, 3])), spf=draw(st.sampled_from([32, 64])), nfiles=draw(st.sampled_from([2, 3])),
                   bw=draw(st.sampled_from([12.5, -12.5, -8.0, 4.0])), pol=draw(st.sampled_from(["LIN", "CIRC"])), seed=draw(st.integers(0, 1)))
        if draw(st.booleans()):
            cfg["names"] = "not_lexical"  # file names whose alphabetical order is not the recording order (the list given is)
    elif kind == "dada_stokes":
        cfg.update(nchan=draw(st.sampled_from([3, 4, 8])), spf=draw(st.sampled_from([16, 32])), nframes=draw(st.sampled_from([2, 3])),
                   bw=draw(st.sampled_from([8.0, -8.0, -2000.0, 16.0])), seed=draw(st.integers(0, 1)))
    # reader options
    opts = {}
    if kind in ("vdif_sample", "vdif_real", "vdif_complex", "dada_sample", "dada_complex"):
        opts["lsb"] = draw(st.sampled_from(["false", "true", "array", "array"]))
        opts["sigtype"] = draw(st.sampled_from(["Signal", "Signal", "BasebandSignal"]))
        opts["squeeze"] = draw(st.sampled_from([None, False]))
        if kind in ("vdif_real", "vdif_sample") and draw(st.integers(0, 3)) == 0:
            opts["intensity"] = True
            opts["sigtype"] = "Signal"
            opts["lsb"] = "false"
    cfg["opts"] = opts
    return cfg


class Model:
    """A reader under test plus the reference content of its file."""

    def __init__(self, cfg):
        import pulsarbat as pb

        self.cfg = cfg
        kind = cfg["kind"]
        names, okw = FL.make({k: v for k, v in cfg.items() if k != "opts"})
        self.names = names
        opts = cfg.get("opts", {})
        self.hilbert = False
        if kind in ("guppi", "guppi_sample"):
            raw, info = FL.direct_read(names, format="guppi", squeeze=False)
            h = info["header0"]
            self.lsb = not h.sideband
            with lib("GUPPIRawReader(...)"):
                self.r = pb.readers.GUPPIRawReader(names)
            ref = raw.conj() if self.lsb else raw
            if self.lsb:
                ref = ref[:, :, ::-1]
            self.ref = np.ascontiguousarray(ref.transpose(0, 2, 1)).astype(np.complex64)
            nchan = raw.shape[2]
            bw, f0 = F(h["OBSBW"]), F(h["OBSFREQ"])
            file_freqs = [f0 - bw / 2 + (i + F(1, 2)) * bw / nchan for i in range(nchan)]  # MHz
            self.expect = {"cls": "DualPolarizationSignal", "rate": O.hz(info["sample_rate"]), "pol": {"LIN": "linear", "CIRC": "circular"}[h["FD_POLN"]],
                           "labels": sorted(f * 10**6 for f in file_freqs), "file_freqs": [f * 10**6 for f in file_freqs], "raw": raw}
        elif kind in ("dada_stokes", "stokes_sample"):
            raw, info = FL.direct_read(names, squeeze=False)
            h = info["header0"]
            self.lsb = h["BW"] < 0
            with lib("DADAStokesReader(...)"):
                self.r = pb.readers.DADAStokesReader(names)
            ref = raw[:, :, ::-1] if self.lsb else raw
            self.ref = np.ascontiguousarray(ref.transpose(0, 2, 1)).astype(np.float32)
            # file channel k sits at FREQ - BW/2 + k * BW/NCHAN (BW signed): the channels of these filterbank files are centred on the grid that
            # starts at the band edge, so FREQ itself is the label of channel NCHAN/2
            nch, bwf, f0 = h["NCHAN"], F(h["BW"]), F(h["FREQ"])
            fk = [(f0 - bwf / 2 + (k if nch % 2 == 0 else k + F(1, 2)) * bwf / nch) * 10**6 for k in range(nch)]
            self.expect = {"cls": "FullStokesSignal", "rate": O.hz(info["sample_rate"]), "chan_bw": abs(F(h["BW"])) / h["NCHAN"] * 10**6,
                           "center": F(h["FREQ"]) * 10**6, "stokes_labels": sorted(fk)}
        else:
            kw = {}
            if opts.get("squeeze") is False:
                kw["squeeze"] = False
            raw, info = FL.direct_read(names, **kw)
            raw = raw.reshape(raw.shape[0], -1) if raw.ndim == 1 else raw
            sshape = raw.shape[1:]
            lsb = {"false": False, "true": True, "array": None}[opts.get("lsb", "false")]
            if lsb is None:
                lsb = (np.arange(int(np.prod(sshape))).reshape(sshape) % 2 == 1)
                if info["shape"][1:] == ():
                    lsb = True
            self.lsb = lsb
            rkw = dict(kw)
            intensity = bool(opts.get("intensity"))
            st_name = opts.get("sigtype", "Signal")
            if st_name == "BasebandSignal" and len(info["shape"]) >= 2 and not intensity:
                rkw.update(signal_type=pb.BasebandSignal, signal_kwargs={"center_freq": 300 * u.MHz, "freq_align": "top"})
                self.expect = {"cls": "BasebandSignal"}
            else:
                self.expect = {"cls": "Signal"}
            if intensity:
                rkw["intensity"] = True
            lsb_arg = lsb if isinstance(lsb, bool) else lsb.reshape(info["shape"][1:]).copy()
            with lib("BasebandReader(...)"):
                self.r = pb.readers.BasebandReader(names, lower_sideband=lsb_arg, **rkw)
            if not isinstance(lsb_arg, bool):
                lsb_arg[...] = ~lsb_arg  # the caller re-uses its own mask array afterwards: the reader keeps what it was configured with
            self.squeezed = info["shape"][1:] == ()
            if info["complex"] or intensity:
                ref = raw.astype(np.complex64 if info["complex"] else np.float32)
                if not intensity:
                    ref = self._conj(ref)
                self.ref = ref
                self.expect["rate"] = O.hz(info["sample_rate"])
            else:
                self.hilbert = True
                self.raw_real = raw
                self.ref = None
                self.expect["rate"] = O.hz(info["sample_rate"]) / 2
        self.T0 = O.T(info["start_time"])
        self.length = (raw.shape[0] // 2) if self.hilbert else raw.shape[0]
        self.spf = info["spf"] // (2 if self.hilbert else 1)
        self.seen = {}

    def _conj(self, x):
        if self.lsb is True:
            return x.conj()
        if self.lsb is False:
            return x
        y = x.copy()
        y[:, self.lsb] = y[:, self.lsb].conj()
        return y

    def expected(self, o, n):
        """-> (array, tolerance)"""
        if not self.hilbert:
            return self.ref[o : o + n], 0.0
        block = self.raw_real[2 * o : 2 * o + 2 * n].astype(np.float64)
        if n == 0:
            return np.zeros((0,) + block.shape[1:], np.complex64), 0.0
        N = 2 * n
        a = np.fft.fft(block, axis=0)
        h = np.zeros(N)
        h[0] = 1
        h[1 : N // 2] = 2
        h[N // 2] = 1
        sh = (N,) + (1,) * (block.ndim - 1)
        ref = (np.fft.ifft(a * h.reshape(sh), axis=0) * np.exp(-0.5j * np.pi * (np.arange(N) % 4)).reshape(sh))[::2]
        ref = self._conj(ref.astype(np.complex64))
        tol = 16 * 6e-8 * (1 + math.log2(N)) * math.sqrt(N) * float(np.max(np.abs(block)) + 1)
        return ref, tol

    def check_read(self, z, o, n, what):
        import pulsarbat as pb

        contract(z, what)
        check(type(z).__name__ == self.expect["cls"], "{}: signal type {} (expected {})", what, type(z).__name__, self.expect["cls"])
        check(len(z) == n, "{}: returned {} samples", what, len(z))
        exp, tol = self.expected(o, n)
        got = np.asarray(z.data)
        if self.cfg["kind"] not in ("guppi", "guppi_sample", "dada_stokes", "stokes_sample") and got.ndim == 1 and exp.ndim == 2:
            exp = exp[:, 0]
        check(got.shape == exp.shape, "{}: shape {} vs file content {}", what, got.shape, exp.shape)
        check(got.dtype == self.r.dtype, "{}: dtype {} but the reader announces {}", what, got.dtype, self.r.dtype)
        if tol == 0.0:
            check(got.tobytes() == exp.astype(got.dtype).tobytes(), "{}: samples differ from what the file encodes at [{}, {}) (max |diff| {:.3g})", what, o, o + n,
                  float(np.max(np.abs(got.astype(np.complex128) - exp))) if got.size else 0.0)
        elif got.size:
            err = float(np.max(np.abs(got - exp)))
            check(err <= tol, "{}: Hilbert-converted samples differ from the reference conversion of file samples [{}, {}) by {:.3g} (tol {:.3g})", what,
                  2 * o, 2 * o + 2 * n, err, tol)
        rate = self.expect["rate"]
        check(abs(O.hz(z.sample_rate) - rate) <= rate * F(1, 10**14), "{}: sample_rate {} vs file {}", what, z.sample_rate, float(rate))
        check(abs(O.T(z.start_time) - (self.T0 + o / rate)) <= O.time_tol(2, o / rate), "{}: start_time is {:.3g} s off start + offset/rate", what,
              float(O.T(z.start_time) - (self.T0 + o / rate)))
        with lib("time_at"):
            ta = self.r.time_at(o)
        check(O.T(z.start_time) == O.T(ta), "{}: start_time != time_at(offset)", what)
        if "labels" in self.expect:
            lab = O.hz_arr(z.channel_freqs)
            for a, b in zip(lab, self.expect["labels"]):
                check(abs(a - b) <= abs(b) * F(1, 10**13), "{}: channel label {} vs header {}", what, float(a), float(b))
            check(z.pol_type == self.expect["pol"], "{}: pol_type {}", what, z.pol_type)
            # output channel j must carry the file channel whose header frequency equals its label
            raw = self.expect["raw"][o : o + n]
            for j, f in enumerate(lab):
                i = min(range(len(self.expect["file_freqs"])), key=lambda k: abs(self.expect["file_freqs"][k] - f))
                src = raw[:, :, i]
                src = src.conj() if self.lsb else src
                check(np.array_equal(got[:, j, :], src.astype(np.complex64)), "{}: output channel {} (label {} MHz) does not hold file channel {} at that "
                      "frequency", what, j, float(f) / 1e6, i)
        if "chan_bw" in self.expect:
            check(abs(O.hz(z.chan_bw) - self.expect["chan_bw"]) <= self.expect["chan_bw"] * F(1, 10**13), "{}: chan_bw {}", what, z.chan_bw)
            check(abs(O.hz(z.center_freq) - self.expect["center"]) <= self.expect["center"] * F(1, 10**13), "{}: center_freq {}", what, z.center_freq)
            lab = O.hz_arr(z.channel_freqs)
            check(all(b > a for a, b in zip(lab, lab[1:])), "{}: channel labels not ascending", what)
            if "stokes_labels" in self.expect:
                exp_l = self.expect["stokes_labels"]
                check(len(lab) == len(exp_l) and all(abs(a - b) <= abs(b) * F(1, 10**12) for a, b in zip(lab, exp_l)),
                      "{}: channel labels {} MHz, the header (FREQ, BW, NCHAN) puts the channels at {} MHz", what, [float(a) / 1e6 for a in lab],
                      [float(b) / 1e6 for b in exp_l])
        key = (o, n)
        if key in self.seen:
            check(self.seen[key] == got.tobytes(), "{}: a repeated read of ({}, {}) returned different data", what, o, n)
        else:
            self.seen[key] = got.tobytes()
        return got


class ReaderHist:
    """steps: ["open", cfg] ["read", o, n] ["dask", o, n, chunk] ["offsets", k] ["bad", kind, v] ["adjacent", o, a, b] ["threads", reqs, order] ["copy_edit", how, o, n]"""

    def __init__(self, stt):
        self.st = stt
        self.m = None

    def apply(self, step):
        getattr(self, "s_" + step[0])(*step[1:])

    def s_open(self, cfg):
        self.m = Model(cfg)
        r, m = self.m.r, self.m
        check(len(r) == m.length, "len(reader) = {} but the file holds {} samples", len(r), m.length)
        check(abs(O.T(r.start_time) - m.T0) <= O.time_tol(0), "reader start_time differs from the file's")
        check(abs(O.T(r.stop_time) - (m.T0 + m.length / m.expect["rate"])) <= O.time_tol(1, m.length / m.expect["rate"]), "reader stop_time wrong")
        check(r.shape[0] == len(r) and r.sample_shape == r.shape[1:] and r.ndim == len(r.shape), "reader shape attributes inconsistent")
        self.st.label("kind_" + cfg["kind"])
        if m.lsb is not False:
            self.st.nt()
            self.st.label("lower_sideband")

    def bounds(self, o, n):
        L = self.m.length
        o = o % (L + 1)
        n = min(n, L - o)
        return o, n

    def s_read(self, o, n):
        o, n = self.bounds(o, n)
        with lib("read(%d, %d)" % (o, n)):
            z = self.m.r.read(o, n)
        self.m.check_read(z, o, n, "read(%d, %d)" % (o, n))
        if n and (o // self.m.spf) != ((o + n - 1) // self.m.spf):
            self.st.nt()
            self.st.label("crosses_frame")

    def s_dask(self, o, n, chunk):
        import dask.array as da

        o, n = self.bounds(o, n)
        kw = {} if chunk is None else {"chunks": (-1,) + (1,) * (len(self.m.r.shape) - 1)} if chunk == "ones" else {"chunks": (max(1, n // 2),) + (-1,) * (len(self.m.r.shape) - 1)}
        with lib("dask_read(%d, %d)" % (o, n)):
            z = self.m.r.dask_read(o, n, **kw)
        check(isinstance(z.data, da.Array), "dask_read returned {}", type(z.data).__name__)
        zc = z.compute(scheduler="synchronous")
        self.m.check_read(zc, o, n, "dask_read(%d, %d, %s)" % (o, n, chunk))
        self.st.label("dask_read")

    def s_copy_edit(self, how, o, n):
        """a copy of the reader (copy.copy / deepcopy / pickle) reads the same file the same way; what is then assigned on the COPY is the copy's
        business: the original goes on reading what the file encodes"""
        import copy
        import pickle

        o, n = self.bounds(o, n)
        r = self.m.r
        with lib("%s of the reader" % how):
            c = {"copy": copy.copy, "deepcopy": copy.deepcopy, "pickle": lambda x: pickle.loads(pickle.dumps(x))}[how](r)
            zc = c.read(o, n)
        self.m.check_read(zc, o, n, "read(%d, %d) from a %s of the reader" % (o, n, how))
        edits = {"center_freq": 1.2345 * u.GHz, "chan_bw": 3 * u.Hz, "freq_align": "top", "pol_type": "circular", "sample_rate": 7 * u.Hz, "meta": {"x": 1}}
        done = []
        for k, v in edits.items():
            if hasattr(c, k):
                cur = getattr(c, k)
                if k == "pol_type":
                    v = "linear" if cur == "circular" else "circular"
                elif k == "freq_align":
                    v = "bottom" if cur == "top" else "top"
                try:
                    setattr(c, k, v)
                    done.append(k)
                except (AttributeError, TypeError, ValueError):
                    pass
        with lib("read from the original after editing its copy"):
            z = r.read(o, n)
        self.m.check_read(z, o, n, "read(%d, %d) after assigning %s on a %s of the reader" % (o, n, done, how))
        self.st.label("copy_edit_" + how)
        if done:
            self.st.nt()

    def s_offsets(self, k):
        r, L = self.m.r, self.m.length
        k = k % (L + 1)
        with lib("offset_at / time_at"):
            t = r.time_at(k)
            back = r.offset_at(t)
            rel = r.time_at(k, unit=u.s)
            back2 = r.offset_at(rel)
            back3 = r.offset_at(r.time_at(k, unit=u.us))
            c = r.contains(t)
            c2 = t in r
            # the same instant written in other time scales
            back4, back5 = r.offset_at(t.tai), r.offset_at(t.tt)
            c3 = r.contains(t.tai)
        check(back == k and back2 == k and back3 == k, "offset_at(time_at({})) = {} / via relative time {} / {}", k, back, back2, back3)
        check(back4 == k and back5 == k and bool(c3) == bool(c), "offset_at(time_at({}) written in TAI / TT) = {} / {}; contains(TAI) = {} vs {}", k, back4, back5,
              bool(c3), bool(c))
        check(abs(O.T(t) - (self.m.T0 + k / self.m.expect["rate"])) <= O.time_tol(1, k / self.m.expect["rate"]), "time_at({}) wrong", k)
        check(bool(c) == (k < L) and bool(c2) == (k < L), "contains(time_at({})) = {} for length {}", k, bool(c), L)

    def s_bad(self, kind, v):
        r, L = self.m.r, self.m.length
        v = v % (L + 5) + 1
        if kind == "past_end":
            must_raise("read beyond the end", lambda: r.read(L - v + 1, v) if v <= L else r.read(0, L + v), (EOFError, ValueError))
        elif kind == "neg_offset":
            must_raise("negative offset", lambda: r.read(-v, 1), (ValueError, EOFError))
        elif kind == "neg_n":
            must_raise("negative n", lambda: r.read(0, -v), (ValueError, EOFError))
        elif kind == "offset_before":
            must_raise("offset_at before start", lambda: r.offset_at(r.start_time - v * r.dt), (EOFError, ValueError))
        elif kind == "offset_after":
            must_raise("offset_at after stop", lambda: r.offset_at(r.stop_time + v * r.dt), (EOFError, ValueError))
        elif kind == "dask_past_end":
            must_raise("dask_read beyond the end", lambda: r.dask_read(L, v), (EOFError, ValueError))
        else:
            must_raise("offset_at relative past end", lambda: r.offset_at(((L + v) / r.sample_rate).to(u.s)), (EOFError, ValueError))
        self.st.label("refused_" + kind)

    def s_adjacent(self, o, a, b):
        import pulsarbat as pb

        L = self.m.length
        o = o % (L + 1)
        a = min(a, L - o)
        b = min(b, L - o - a)
        with lib("adjacent reads"):
            z1, z2, z12 = self.m.r.read(o, a), self.m.r.read(o + a, b), self.m.r.read(o, a + b)
        self.m.check_read(z1, o, a, "read")
        self.m.check_read(z2, o + a, b, "read")
        if not self.m.hilbert:
            with lib("concatenate(adjacent reads)"):
                j = pb.concatenate([z1, z2])
            check(np.asarray(j.data).tobytes() == np.asarray(z12.data).tobytes(), "adjacent reads ({}, {}) + ({}, {}) do not concatenate to the spanning read", o, a,
                  o + a, b)
            check(O.T(j.start_time) == O.T(z12.start_time), "concatenated start_time differs from the spanning read's")
        self.st.label("adjacent")

    def s_threads(self, reqs, order):
        """reqs: list of (o, n); order: list of thread indices = who may perform its next file-handle event"""
        import pulsarbat.readers._baseband_readers as BR

        reqs = [self.bounds(o, n) for o, n in reqs]
        sched = Schedule(order, len(reqs))
        real_open = BR.baseband.open
        results = [None] * len(reqs)
        errors = [None] * len(reqs)

        def proxy_open(*a, **k):
            return Proxy(real_open(*a, **k), sched)

        def work(i):
            sched.register(i)
            try:
                results[i] = self.m.r.read(*reqs[i])
            except Exception as e:  # noqa
                errors[i] = e
            finally:
                sched.finish(i)

        BR.baseband.open = proxy_open
        try:
            with quiet_warnings():
                ths = [threading.Thread(target=work, args=(i,), name="pbv-%d" % i) for i in range(len(reqs))]
                for t in ths:
                    t.start()
                for t in ths:
                    t.join(30)
        finally:
            BR.baseband.open = real_open
        for i in range(len(reqs)):
            if isinstance(errors[i], Warning):  # see quiet_warnings: redo that read alone
                errors[i], results[i] = None, self.m.r.read(*reqs[i])
                self.st.label("warning_race_retried")
        for i, (o, n) in enumerate(reqs):
            check(errors[i] is None, "concurrent read({}, {}) raised {!r}", o, n, errors[i])
            check(results[i] is not None, "concurrent read({}, {}) did not finish", o, n)
            self.m.check_read(results[i], o, n, "read(%d, %d) interleaved with %d other reads (schedule %s)" % (o, n, len(reqs) - 1, order))
        self.st.nt(sched.foreign_between > 0 or True)
        self.st.label("threads_%d" % len(reqs))
        self.st.label("schedule_honoured" if not sched.timed_out else "schedule_timeout")

    def s_soak(self, seedlist):
        reqs = [self.bounds(o, n) for o, n in seedlist]
        out, errs = {}, []

        def work(i):
            try:
                for j in range(3):
                    o, n = reqs[(i + j * 5) % len(reqs)]
                    out[(i, j)] = (o, n, self.m.r.read(o, n))
            except Exception as e:  # noqa
                errs.append(e)

        with quiet_warnings():
            ths = [threading.Thread(target=work, args=(i,)) for i in range(12)]
            for t in ths:
                t.start()
            for t in ths:
                t.join(60)
        errs = [e for e in errs if not isinstance(e, Warning)]
        check(not errs, "free-running concurrent reads raised {!r}", errs[:1])
        for (i, j), (o, n, z) in out.items():
            self.m.check_read(z, o, n, "read(%d, %d) in a 12-thread soak" % (o, n))
        self.st.label("soak")

    def close(self):
        pass


class quiet_warnings:
    """Python's warnings filters are process-global and `catch_warnings` is not thread-safe: while several threads run, a library's temporary
    `simplefilter("error")` can leak into another thread and turn an unrelated DeprecationWarning (baseband -> astropy.utils.isiterable) into
    an exception.  That is an artefact of the interpreter, not of the reader, so warnings are switched off while the harness runs threads."""

    def __enter__(self):
        import warnings

        self._warn = warnings.warn
        warnings.warn = lambda *a, **k: None

    def __exit__(self, *a):
        import warnings

        warnings.warn = self._warn
        warnings.resetwarnings()
        warnings.filterwarnings("ignore")


class Schedule:
    def __init__(self, order, nthreads):
        self.order = list(order)
        self.cond = threading.Condition()
        self.done = set()
        self.ids = {}
        self.timed_out = False
        self.foreign_between = 0
        self.last = None

    def register(self, i):
        self.ids[threading.get_ident()] = i

    def finish(self, i):
        with self.cond:
            self.done.add(i)
            self.cond.notify_all()

    def turn(self):
        i = self.ids.get(threading.get_ident())
        if i is None:
            return
        import time

        t0 = time.time()
        with self.cond:
            while True:
                while self.order and self.order[0] in self.done:
                    self.order.pop(0)
                if not self.order or self.order[0] == i:
                    if self.order:
                        self.order.pop(0)
                    if self.last is not None and self.last != i:
                        self.foreign_between += 1
                    self.last = i
                    self.cond.notify_all()
                    return
                if time.time() - t0 > 3:
                    self.timed_out = True
                    self.cond.notify_all()
                    return
                self.cond.wait(0.02)


class Proxy:
    """wraps a baseband stream reader: every seek/read waits for the calling thread's turn"""

    def __init__(self, fh, sched):
        self._fh, self._s = fh, sched

    def __enter__(self):
        self._fh.__enter__()
        return self

    def __exit__(self, *a):
        return self._fh.__exit__(*a)

    def seek(self, *a, **k):
        self._s.turn()
        return self._fh.seek(*a, **k)

    def read(self, *a, **k):
        self._s.turn()
        return self._fh.read(*a, **k)

    def __getattr__(self, name):
        return getattr(self._fh, name)


class ReaderMachine(HistoryMachine):
    model_cls = ReaderHist

    @initialize(cfg=file_cfg())
    def open(self, cfg):
        self.do(["open", cfg])

    def _pos(self, data):
        L, spf = self.model.m.length, max(1, self.model.m.spf)
        o = data.draw(st.one_of(st.integers(0, L), st.sampled_from([0, L, max(0, spf - 1), min(L, spf), max(0, L - 1), min(L, 2 * spf)]),
                                st.integers(0, min(L, 3 * spf))))
        n = data.draw(st.one_of(st.integers(0, min(L, 40)), st.sampled_from([0, 1, 2, 3, 5, spf, spf + 1, 2 * spf + 1]), st.integers(0, min(L, 3 * spf)),
                                st.sampled_from([L, L // 2 + 1, min(L, 8193), min(L, 16385)])))
        return o, n

    @rule(data=st.data(), times=st.sampled_from([1, 1, 2, 2, 3]))
    def read(self, data, times):
        o, n = self._pos(data)
        self._last = (o, n)
        for _ in range(times):  # the same request several times in a row is part of "any sequence of reads"
            self.do(["read", o, n])

    @precondition(lambda self: getattr(self, "_last", None) is not None)
    @rule(times=st.integers(1, 3))
    def reread(self, times):
        # the very same request again, immediately (caches of "the last block")
        for _ in range(times):
            self.do(["read", self._last[0], self._last[1]])

    @rule(data=st.data(), chunk=st.sampled_from([None, None, "ones", "half"]))
    def dask(self, data, chunk):
        o, n = self._pos(data)
        self.do(["dask", o, n, chunk])

    @rule(data=st.data(), how=st.sampled_from(["copy", "copy", "deepcopy", "pickle"]))
    def copy_edit(self, data, how):
        o, n = self._pos(data)
        self.do(["copy_edit", how, o, min(n, 64)])

    @rule(k=st.integers(0, 10**6))
    def offsets(self, k):
        self.do(["offsets", k])

    @rule(kind=st.sampled_from(["past_end", "neg_offset", "neg_n", "offset_before", "offset_after", "dask_past_end", "offset_rel_after"]), v=st.integers(0, 50))
    def bad(self, kind, v):
        self.do(["bad", kind, v])

    @rule(data=st.data())
    def adjacent(self, data):
        o, a = self._pos(data)
        _, b = self._pos(data)
        self.do(["adjacent", o, a, b])

    @rule(data=st.data())
    def threads(self, data):
        k = data.draw(st.integers(2, 4))
        reqs = [list(self._pos(data)) for _ in range(k)]
        order = data.draw(st.lists(st.integers(0, k - 1), min_size=2 * k, max_size=3 * k))
        self.do(["threads", reqs, order])


# -- a plain sub-check for the soak and for joint Dask reads of several readers -------------------------------------------


@st.composite
def soak_case(draw):
    cfg = draw(file_cfg())
    return {"cfg": cfg, "reqs": [[draw(st.integers(0, 10**6)), draw(st.integers(0, 80))] for _ in range(8)]}


def run_soak(case, stt):
    h = ReaderHist(stt)
    h.apply(["open", case["cfg"]])
    h.apply(["soak", case["reqs"]])
    stt.nt()


@st.composite
def joint_case(draw):
    kind = draw(st.sampled_from(["dada_complex", "vdif_complex", "guppi", "dada_stokes"]))
    base = {"dada_complex": {"nchan": 2, "spf": 32, "nframes": 3}, "vdif_complex": {"nthread": 2, "nchan": 1, "spf": 32, "nframes": 8},
            "guppi": {"nchan": 4, "spf": 32, "nfiles": 2, "bw": -12.5, "pol": "LIN"}, "dada_stokes": {"nchan": 4, "spf": 16, "nframes": 2, "bw": 8.0}}[kind]
    return {"kind": kind, "base": base, "o": draw(st.integers(0, 40)), "n": draw(st.integers(1, 20)), "same_pos": draw(st.booleans()),
            "sched": draw(st.sampled_from(["synchronous", "threads"])), "extra": [[draw(st.integers(0, 60)), draw(st.integers(0, 30))] for _ in range(3)]}


def run_joint(case, stt):
    """two readers of the same class on files with different content, Dask reads computed in ONE graph"""
    import dask

    a = Model(dict(case["base"], kind=case["kind"], seed=0, opts={}))
    b = Model(dict(case["base"], kind=case["kind"], seed=1, opts={}))
    o, n = case["o"] % (a.length + 1), case["n"]
    n = min(n, a.length - o)
    o2 = o if case["same_pos"] else (o + 3) % (a.length - n + 1)
    extra = [(eo % (a.length + 1), min(en, a.length - eo % (a.length + 1))) for eo, en in case.get("extra", [])]
    with lib("dask_read on two readers"):
        za, zb = a.r.dask_read(o, n), b.r.dask_read(o2, n)
        more = [a.r.dask_read(eo, en) for eo, en in extra]
        with quiet_warnings():
            ra, rb, *rest = dask.compute(za.data, zb.data, *[m.data for m in more], scheduler=case.get("sched", "synchronous"))
    for (eo, en), got in zip(extra, rest):
        ee, _ = a.expected(eo, en)
        check(got.tobytes() == ee.astype(got.dtype).tobytes(), "joint compute ({}): lazy read({}, {}) of reader A is not the file's content", case.get("sched"), eo, en)
    ea, _ = a.expected(o, n)
    eb, _ = b.expected(o2, n)
    check(ra.tobytes() == ea.astype(ra.dtype).tobytes(), "joint compute: reader A's lazy read({}, {}) is not file A's content", o, n)
    check(rb.tobytes() == eb.astype(rb.dtype).tobytes(), "joint compute: reader B's lazy read({}, {}) is not file B's content (is it file A's? {})", o2, n,
          rb.tobytes() == ea.astype(rb.dtype).tobytes())
    stt.nt(case["same_pos"])
    stt.label("kind_" + case["kind"])


@st.composite
def proc_case(draw):
    cfg = draw(file_cfg())
    return {"cfg": cfg, "o": draw(st.integers(0, 10**6)), "n": draw(st.integers(1, 40))}


def run_proc(case, stt):
    """a lazy read computed by the multiprocess scheduler: the reader travels to the worker by pickling"""
    h = ReaderHist(stt)
    h.apply(["open", case["cfg"]])
    m = h.m
    o, n = h.bounds(case["o"], case["n"])
    with lib("dask_read(...).compute(scheduler='processes')"):
        z = m.r.dask_read(o, n)
        got = z.data.compute(scheduler="processes", num_workers=2)
    exp, tol = m.expected(o, n)
    if got.ndim == 1 and exp.ndim == 2:
        exp = exp[:, 0]
    if tol == 0.0:
        check(got.tobytes() == exp.astype(got.dtype).tobytes(), "lazy read({}, {}) computed in worker processes differs from what the file encodes "
              "(reader options: {})", o, n, case["cfg"].get("opts"))
    elif got.size:
        check(float(np.max(np.abs(got - exp))) <= tol, "lazy read({}, {}) computed in worker processes differs from the reference conversion", o, n)
    stt.nt(m.lsb is not False)
    stt.label("kind_" + case["cfg"]["kind"])


# -- a reader written against the documented extension point ---------------------------------------------------------------------------------


@st.composite
def user_reader_case(draw):
    L = draw(st.integers(1, 60))
    ss = draw(st.sampled_from([[], [3], [2, 2], [1]]))
    o = draw(st.integers(0, L))
    n = draw(st.integers(0, L - o))
    chunks = draw(st.sampled_from(["default", "half_time", "ones", "int", "whole"]))
    return {"L": L, "ss": ss, "o": o, "n": n, "chunks": chunks, "t0": draw(st.one_of(st.none(), G.time0())), "rate": draw(G.freq_q(0, 8))}


def run_user_reader(case, stt):
    """`BaseReader` documents one extension point: implement `_read_array(self, offset, n, /)`.  A reader written exactly so (it returns the
    sample indices) must serve every read the base class offers -- eager and lazy, with and without `chunks` -- position-faithfully."""
    import pulsarbat as pb
    import dask.array as da

    class IndexReader(pb.readers.BaseReader):
        def _read_array(self, offset, n, /):
            x = np.arange(offset, offset + n, dtype=np.float64).reshape((-1,) + (1,) * (self.ndim - 1))
            return x * np.ones(self.sample_shape) + 0.25 * np.arange(int(np.prod(self.sample_shape)) or 1).reshape(self.sample_shape or ())

    L, ss, o, n = case["L"], tuple(case["ss"]), case["o"], case["n"]
    t0 = G.mk_time(case["t0"])
    with lib("BaseReader subclass construction"):
        r = IndexReader(shape=(L,) + ss, dtype=np.float64, sample_rate=O.q(case["rate"]), start_time=t0)
    want = r._read_array(o, n)
    ch = {"default": None, "half_time": (max(1, n // 2),) + (-1,) * len(ss), "ones": (-1,) + (1,) * len(ss), "int": max(1, n // 3 or 1),
          "whole": (-1,) * (1 + len(ss))}[case["chunks"]]
    kw = {} if ch is None else {"chunks": ch}
    with lib("read(%d, %d)" % (o, n)):
        z = r.read(o, n)
    with lib("read(%d, %d, use_dask=True, %s)" % (o, n, kw)):
        zd = r.read(o, n, use_dask=True, **kw)
        zd2 = r.dask_read(o, n, **kw)
    check(isinstance(zd.data, da.Array) and isinstance(zd2.data, da.Array), "lazy read returned {}", type(zd.data).__name__)
    for w, q in (("read", z), ("read(use_dask=True%s)" % (", chunks=%s" % (ch,) if kw else ""), zd), ("dask_read", zd2)):
        with lib(w + " of a reader implementing _read_array(self, offset, n, /) -> samples", any_exception=True):  # (the library built that graph)
            got = np.asarray(q.data)
        check(type(q) is pb.Signal and got.shape == want.shape and bits_equal(got, want), "{}({}, {}) of a user-defined reader: samples differ", w, o, n)
        if t0 is not None:
            check(abs(O.T(q.start_time) - (O.T(t0) + F(o) / O.fq(case["rate"]))) <= O.time_tol(1, F(o) / O.fq(case["rate"])), "{}: start_time is not time_at(offset)", w)
    stt.nt(bool(kw) and n >= 2)
    stt.label("chunks_" + case["chunks"])


SUBS = [
    MachineSub("read_histories", ReaderMachine,
               "rule-based machine per reader: the four sample files and files written by the check (VDIF real/complex with 1-4 threads, DADA "
               "complex, multi-file GUPPI with OBSBW of either sign and LIN/CIRC, DADA Stokes with BW of either sign; options lower_sideband "
               "bool/array, squeeze, signal type, intensity); rules read / dask_read (default and explicit chunks) / offset_at(time_at) absolute "
               "and relative / out-of-range requests / adjacent reads vs spanning read / 2-4 threads under a drawn interleaving of their "
               "seek/read events; every result checked against the file content and against earlier reads of the same (offset, n); "
               "non-trivial = a read crossing a frame or file boundary, a lower-sideband file, or a threaded step", quick=128, thorough=3000,
               steps_quick=10, steps_thorough=25, pieces_quick=8, budget_quick=70),
    Sub("soak", soak_case(), run_soak, "12 free-running threads x 3 reads each on one reader; all results vs file content; all non-trivial", quick=16,
        thorough=300, pieces_quick=4),
    Sub("joint_dask_reads", joint_case(), run_joint,
        "two readers of the same class on files with different content: lazy reads of the same (offset, n) computed in one dask.compute call must "
        "each return their own file's samples; non-trivial = same (offset, n)", quick=40, thorough=600, pieces_quick=4),
    Sub("process_scheduler_reads", proc_case(), run_proc,
        "lazy reads computed with dask's multiprocess scheduler (the reader object is pickled into the workers) for every file kind and reader "
        "option; non-trivial = a lower-sideband reader", quick=5, thorough=150, pieces_quick=1, pieces_thorough=1, budget_quick=60),
    Sub("user_reader", user_reader_case(), run_user_reader,
        "a BaseReader subclass implementing only the documented _read_array(self, offset, n, /) (it returns sample indices): eager read, "
        "read(use_dask=True) and dask_read with default and explicit chunks (split time axis, single-sample sample axes, an integer) return "
        "the requested samples and start time; non-trivial = explicit chunks and n >= 2", quick=300, thorough=3000),
]

[s for s in SUBS if s.name == "process_scheduler_reads"][0].in_parent = True  # starts worker processes itself

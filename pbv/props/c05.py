"""C05 -- coherent dedispersion applies the cold-plasma chirp and crops to valid times."""

import math
from fractions import Fraction as F

import numpy as np
import astropy.units as u
from hypothesis import strategies as st

from ..core import Sub, check, lib, must_raise
from .. import oracle as O, gen as G
from ..contract import contract, same_meta, assert_start, bits_equal, rate_hz

EPS = 2.220446049250313e-16
PHASE_BOUND = 5 * 10**6  # cycles: |phi| + K*DM*|1/fref - 1/f| (the part float64 cannot resolve better than 32 eps of)

ASSUMPTIONS = [
    "reference transfer function: phase K*DM*f*(1/fref-1/f)^2 in exact rationals per bin and channel label, reduced mod 1 before "
    "conversion to float; K = 10^6/241 s MHz^2 cm^3/pc; bins follow numpy.fft.fftfreq",
    "chirp tolerance 5e-7 + 2 pi 32 eps (|phi| + K DM |1/fref - 1/f|): complex64 storage plus float64 cancellation in (1/fref - 1/f); "
    "the generator scales |DM| down so that the second term stays below 5e-7",
    "data tolerance 2e-6*(1+log2 N)*max|x| (complex64 chirp); reference FFT = longdouble DFT matrix for N <= 128, numpy.fft complex128 above",
    "a crop bound is ambiguous when the exact band-edge delay is within float-evaluation error of a whole sample: such cases are skipped",
]

REFSEL = ["none", "center", "lo", "hi", "above", "below", "inside", "inf"]  # "inf": delays relative to infinite frequency (ref_freq = inf Hz)


def band(spec):
    """(lowest, highest frequency present in the signal, centre frequency): every channel holds label +- chan_bw/2.  For an even channel
    count with 'bottom' / 'top' alignment that is NOT center_freq +- bandwidth/2 (the outermost channel straddles that edge) -- F33."""
    cf, bw = O.fq(spec["cf"]), O.fq(spec["sr"])
    labels = G.exact_labels(spec)
    return labels[0] - bw / 2, labels[-1] + bw / 2, cf


def ref_of(spec, sel):
    lo, hi, cf = band(spec)
    if sel == "inf":
        return O.INF
    r = {"none": None, "center": cf, "lo": lo, "hi": hi, "above": hi * F(3, 2), "below": lo * F(2, 3), "inside": lo + (hi - lo) * F(1, 3)}[sel]
    return None if r is None else F(float(r))  # what the library receives is the float


def bins_hz(N, rate):
    return [F(int(k)) * rate / N for k in O.fftfreq_int(N)]


def phase_extent(spec, fr):
    """max over the band of (|phi| + t_RF) for DM = 1"""
    lo, hi, cf = band(spec)
    out = 0
    bw = O.fq(spec["sr"])
    for f in (lo - bw / 2, hi + bw / 2):
        if f <= 0:
            continue
        out = max(out, abs(O.chirp_phase_cycles(F(1), f, fr)) + O.K_DM * 10**6 * abs(1 / (fr / 10**6) - 1 / (f / 10**6)))
    return out


def cap_dm(spec, dm, sel):
    fr = ref_of(spec, sel) or band(spec)[2]
    ext = phase_extent(spec, fr)
    mag = abs(F(dm))
    if ext > 0 and mag * ext > PHASE_BOUND:
        mag = F(PHASE_BOUND) / ext
    mag = min(mag, F(10**4))
    return float(mag) * (1 if dm >= 0 else -1)


@st.composite
def dd_spec(draw, nmin=8, nmax=512, nchan_max=4):
    spec = draw(G.signal_spec(classes=G.BASEBAND, nmin=nmin, nmax=nmax, nchan_max=nchan_max, max_trailing=1, sr=G.freq_q(4, 8.3),
                              positive_band=True, data_kinds=("noise",), trailing_dim_max=2, ratio_lo=1e-6))
    return spec


@st.composite
def dm_and_ref(draw, spec):
    sel = draw(st.sampled_from(REFSEL))
    sgn, ex = draw(st.tuples(st.sampled_from([-1, 1]), st.floats(-4, 3)))
    dmv = cap_dm(spec, sgn * 10**ex, sel)
    return dmv, sel


# ---------------------------------------------------------------------------------------------
# exact transfer function
# ---------------------------------------------------------------------------------------------


def exact_chirp(dm, N, rate, fc, fr):
    """-> (H complex128 array (N,), |phi| max, t_RF max)"""
    H = np.empty(N, dtype=np.complex128)
    pmax = tmax = 0
    for i, b in enumerate(bins_hz(N, rate)):
        f = fc + b
        ph = O.chirp_phase_cycles(dm, f, fr)
        H[i] = O.frac_cis(-ph)
        pmax = max(pmax, abs(ph))
        tmax = max(tmax, abs(O.K_DM * dm * 10**6 * (1 / (fr / 10**6) - 1 / (f / 10**6))))
    return H, pmax, tmax


def chirp_tol(pmax, tmax):
    return 5e-7 + 2 * math.pi * 32 * EPS * float(pmax + tmax)


# -- 1. chirp_function / chirp_from_signal ---------------------------------------------------------------


@st.composite
def chirp_case(draw):
    spec = draw(dd_spec(nmin=1, nmax=96))
    dmv, sel = draw(dm_and_ref(spec))
    return {"sig": spec, "dm": dmv, "ref": sel, "dt_unit": draw(st.sampled_from(["s", "us", "ns", "ms"])),
            "f_unit": draw(st.sampled_from(["Hz", "MHz", "GHz", "kHz"])), "dm_unit": draw(st.sampled_from(["none", "none", "pc / cm3", "kpc / cm3", "pc / m3"])),
            "dm_k": draw(st.sampled_from(G.DM_KINDS))}


def run_chirp(case, stt):
    import pulsarbat as pb
    import dask.array as da

    spec = case["sig"]
    N, rate = spec["n"], O.fq(spec["sr"])
    lo, hi, cf = band(spec)
    fr = ref_of(spec, case["ref"]) or cf
    dm = F(case["dm"])
    D = pb.DM(case["dm"])
    if case.get("dm_unit", "none") != "none":
        # the same dispersion measure spelled in an equivalent unit
        sc = {"pc / cm3": F(1), "kpc / cm3": F(1000), "pc / m3": F(1, 10**6)}[case["dm_unit"]]
        val = float(dm / sc)
        D, dm = pb.DM(val * u.Unit(case["dm_unit"])), F(val) * sc
    D, kf = G.dm_kind(pb, D, case.get("dm_k"))  # (a user's own dispersion constant scales delay and chirp alike)
    dm *= kf
    stt.label("constant_" + (case.get("dm_k") or "lib"))
    z = G.build(spec)
    labels = G.exact_labels(spec)
    # (a) chirp_function at the first channel label with explicit units
    f0 = labels[0]
    dt_q = (1 / z.sample_rate).to(O.unit(case["dt_unit"]))
    fc_q = (float(f0 / O.FREQ_UNITS[case["f_unit"]])) * O.unit(case["f_unit"])
    fr_q = (float("inf") if fr is O.INF else float(fr / O.FREQ_UNITS[case["f_unit"]])) * O.unit(case["f_unit"])
    rate_seen = 1 / (F(float(dt_q.value)) * O.TIME_UNITS[case["dt_unit"]])
    fc_seen = F(float(fc_q.value)) * O.FREQ_UNITS[case["f_unit"]]
    fr_seen = O.INF if fr is O.INF else F(float(fr_q.value)) * O.FREQ_UNITS[case["f_unit"]]
    with lib("chirp_function"):
        h = D.chirp_function(N, dt_q, fc_q, fr_q)
        hd = D.chirp_function(N, dt_q, fc_q, fr_q, use_dask=True)
    check(isinstance(hd, da.Array), "chirp_function(use_dask=True) is not lazy ({})", type(hd).__name__)
    H, pmax, tmax = exact_chirp(dm, N, rate_seen, fc_seen, fr_seen)
    tol = chirp_tol(pmax, tmax)
    h = np.asarray(h)
    check(h.shape == (N,), "chirp_function shape {}", h.shape)
    err = float(np.max(np.abs(h - H)))
    check(err <= tol, "chirp_function differs from exp(-2 pi i K DM f (1/fref-1/f)^2) by {:.3g} (tol {:.3g}; max |phase| {:.3g} cycles)", err, tol, float(pmax))
    check(float(np.max(np.abs(np.abs(h) - 1))) <= 1e-6, "chirp is not unit modulus")
    check(bits_equal(np.asarray(hd.compute()), h), "dask-delayed chirp differs from the eager chirp")
    # (b) chirp_from_signal: one chirp per channel label
    kw = {} if case["ref"] == "none" else {"ref_freq": float(fr) * u.Hz}
    with lib("chirp_from_signal"):
        c = np.asarray(D.chirp_from_signal(z, **kw))
    check(c.shape[:2] == (N, len(labels)) and c.ndim == z.ndim, "chirp_from_signal shape {} for signal shape {}", c.shape, z.shape)
    worst = 0
    for i, f in enumerate(labels):
        Hi, p2, t2 = exact_chirp(dm, N, rate, f, fr)
        e = float(np.max(np.abs(c[(slice(None), i) + (0,) * (c.ndim - 2)] - Hi)))
        check(e <= chirp_tol(p2, t2), "chirp_from_signal channel {} (label {} Hz) off by {:.3g} (tol {:.3g})", i, float(f), e, chirp_tol(p2, t2))
        worst = max(worst, float(p2))
    stt.nt(worst >= 1 and (case["ref"] not in ("none", "center") or N & (N - 1)))
    stt.label("ref_" + case["ref"])
    stt.label("phase>=1cycle" if worst >= 1 else "phase<1cycle")
    stt.label("dm_neg" if case["dm"] < 0 else "dm_pos")
    stt.label("dm_unit_" + case.get("dm_unit", "none"))


# -- 2. dedispersed data, crop, start time, supplied chirp ----------------------------------------------------


@st.composite
def cdd_case(draw):
    spec = draw(dd_spec())
    dmv, sel = draw(dm_and_ref(spec))
    # make band-edge delays of a useful size: scale |DM| so that the largest edge delay is ~ U(0, 1.5 N) samples
    lo, hi, cf = band(spec)
    fr = ref_of(spec, sel) or cf
    rate = O.fq(spec["sr"])
    d1 = max(abs(O.disp_delay_s(F(1), f, fr) * rate) for f in (lo, hi))
    if d1 > 0 and (draw(st.integers(0, 3)) > 0 or d1 * abs(F(dmv)) > 3 * spec["n"]):
        want = draw(st.one_of(st.floats(0.0, 1.0), st.floats(0.0, 0.3), st.floats(0.9, 2.2))) * spec["n"]
        cand = float(F(want) / d1)
        dmv = cap_dm(spec, math.copysign(cand, dmv), sel)
    return {"sig": spec, "dm": dmv, "ref": sel, "dm_unit": draw(st.sampled_from(["none", "none", "none", "kpc / cm3", "pc / m3", "1 / cm2"])),
            "dm_k": draw(st.sampled_from(G.DM_KINDS))}


DM_UNIT_SCALE = {"pc / cm3": F(1), "kpc / cm3": F(1000), "pc / m3": F(1, 10**6)}


def mk_dm(pb, value, unit_name):
    """-> (DispersionMeasure object, exact value in pc/cm3): the number as given, or the same measure spelled in an equivalent unit"""
    if unit_name in (None, "none"):
        return pb.DM(value), F(value)
    if unit_name == "1 / cm2":
        qq = (value * u.pc / u.cm**3).to(u.cm**-2)  # a column density; its exact value back in pc/cm3:
        D = pb.DM(qq)
        return D, F(float(D.to_value(u.pc / u.cm**3)))
    sc = DM_UNIT_SCALE[unit_name]
    val = float(F(value) / sc)
    return pb.DM(val * u.Unit(unit_name)), F(val) * sc


def reference_fft(x, use_ld):
    return (O.dft(x, axis=0), O.idft) if use_ld else (np.fft.fft(x.astype(np.complex128), axis=0), lambda X, axis=0: np.fft.ifft(X, axis=axis))


def expected_crop(spec, dm, fr, N):
    """-> (start, stop, ambiguous, max |edge delay|, candidates) ; candidates = every (start, stop) that a float64
    evaluation of the two band-edge delays may legitimately arrive at"""
    lo, hi, cf = band(spec)
    rate = O.fq(spec["sr"])
    d_top = O.disp_delay_s(dm, hi, fr) * rate
    d_bot = O.disp_delay_s(dm, lo, fr) * rate
    fz = max(O.delay_fuzz(dm, f, fr, rate) for f in (lo, hi)) if dm != 0 else 0
    amb = dm != 0 and any(abs(d - round(d)) < fz for d in (d_top, d_bot))
    xs, xe = -min(0, d_top, d_bot), max(0, d_top, d_bot)
    start, stop = math.ceil(xs), N - math.ceil(xe)
    starts = {math.ceil(max(0, xs - fz)), math.ceil(xs + fz)} if dm != 0 else {start}
    stops = {N - math.ceil(max(0, xe - fz)), N - math.ceil(xe + fz)} if dm != 0 else {stop}
    cands = sorted((a, b) for a in starts for b in stops)
    return start, stop, amb, max(abs(d_top), abs(d_bot)), cands


def run_cdd(case, stt):
    import pulsarbat as pb

    spec = case["sig"]
    N, rate = spec["n"], O.fq(spec["sr"])
    lo, hi, cf = band(spec)
    fr = ref_of(spec, case["ref"]) or cf
    D, dm = mk_dm(pb, case["dm"], case.get("dm_unit"))
    D, kf = G.dm_kind(pb, D, case.get("dm_k"))
    dm *= kf
    stt.label("constant_" + (case.get("dm_k") or "lib"))
    if case.get("dm_unit", "none") != "none":
        stt.label("dm_unit_" + case["dm_unit"])
    z = G.build(spec)
    x = z.data.copy()
    kw = {} if case["ref"] == "none" else {"ref_freq": float(fr) * u.Hz}
    start, stop, amb, dmax, cands = expected_crop(spec, dm, fr, N)
    with lib("coherent_dedispersion"):
        y = pb.coherent_dedispersion(z, D, **kw)
    contract(y, "coherent_dedispersion")
    check(type(y) is type(z), "type changed to {}", type(y).__name__)
    same_meta(y, z, "coherent_dedispersion: ")
    check(y.data.dtype == x.dtype, "dtype {} -> {}", x.dtype, y.data.dtype)
    check(y.shape[1:] == x.shape[1:], "sample shape changed")

    def length(a, b):
        return max(0, b - a) if a <= N else 0

    ok = [(a, b) for a, b in cands if length(a, b) == len(y)]
    check(ok, "output has {} samples; the band-edge delays ({:.6g} samples max) leave exactly [{}:{}] = {} valid samples of {}{}",
          len(y), float(dmax), start, stop, length(start, stop), N, " (or a neighbour within float rounding: %s)" % cands if amb else "")
    L = len(y)
    if L > 0:
        use_ld = N <= 128
        X, inv = reference_fft(x, use_ld)
        labels = G.exact_labels(spec)
        Hs = np.stack([exact_chirp(dm, N, rate, f, fr)[0] for f in labels], axis=1)
        Hs = Hs.reshape(Hs.shape + (1,) * (x.ndim - 2))
        full = np.asarray(inv(X * Hs, axis=0))
        scale = float(np.max(np.abs(x)))
        tol = 2e-6 * (1 + math.log2(N)) * scale
        msgs = []
        for a, b in ok:
            try:
                T0 = None if z.start_time is None else O.T(z.start_time) + F(a) / rate
                assert_start(y, T0, k=1, offset_s=F(a) / rate, what="coherent_dedispersion: ")
                err = float(np.max(np.abs(np.asarray(y.data) - full[a:b])))
                check(err <= tol, "dedispersed samples differ from IDFT(DFT(x) H) on the valid range [{}:{}] by {:.3g} (tol {:.3g}; N={}, DM={}, ref={})",
                      a, b, err, tol, N, case["dm"], case["ref"])
                msgs = []
                break
            except Exception as e:  # noqa  (Violation: try the other admissible crop)
                from ..core import Violation

                if not isinstance(e, Violation):
                    raise
                msgs.append(str(e))
        check(not msgs, "{}", " | ".join(msgs))
    if amb:
        stt.label("ambiguous_crop_either_neighbour")
    # supplying the chirp gives the same result
    with lib("chirp_from_signal + coherent_dedispersion(chirp=)"):
        ch = D.chirp_from_signal(z, **kw)
        y2 = pb.coherent_dedispersion(z, D, chirp=ch, **kw)
    check(bits_equal(np.asarray(y2.data), np.asarray(y.data)), "supplying the chirp gives a different result than the internal one")
    check((y2.start_time is None) == (y.start_time is None) and (y.start_time is None or O.T(y2.start_time) == O.T(y.start_time)),
          "supplying the chirp changes start_time")
    stt.nt(case["dm"] != 0 and dmax >= 1 and (bool(N & (N - 1)) or case["ref"] not in ("none", "center")))
    stt.label("ref_" + case["ref"])
    stt.label("N_odd" if N % 2 else "N_pow2" if not N & (N - 1) else "N_even")
    stt.label("empty_result" if L == 0 else "nonempty")
    stt.label("dm_neg" if case["dm"] < 0 else "dm_pos")
    stt.label("delay>=1" if dmax >= 1 else "delay<1")


# -- 3. DM then -DM restores a compactly supported input ------------------------------------------------------------


@st.composite
def rt_case(draw):
    spec = draw(dd_spec(nmin=96, nmax=600, nchan_max=2))
    sel = draw(st.sampled_from(REFSEL))
    lo, hi, cf = band(spec)
    fr = ref_of(spec, sel) or cf
    rate = O.fq(spec["sr"])
    d1 = max(abs(O.disp_delay_s(F(1), f, fr) * rate) for f in (lo, hi))
    want = draw(st.floats(0.05, 1.0)) * spec["n"] / 8
    dmv = float(F(want) / d1) if d1 > 0 else 1.0
    dmv = cap_dm(spec, dmv * draw(st.sampled_from([-1, 1])), sel)
    return {"sig": spec, "dm": dmv, "ref": sel, "w": draw(st.integers(1, max(1, spec["n"] // 8)))}


def smooth_pulse(spec, w):
    """Gaussian-envelope noise, band-limited to the inner 80 % of each channel (so that the chirp's jump across the
    Nyquist edge does not matter) -- a 'compactly supported' input in the sense in which dedispersion is reversible."""
    x = G.mk_data(spec).astype(np.complex128)
    N = x.shape[0]
    env = np.exp(-(((np.arange(N) - N // 2) / max(w, 1)) ** 2))
    x = x * env.reshape((N,) + (1,) * (x.ndim - 1))
    X = np.fft.fft(x, axis=0)
    k = np.abs(O.fftfreq_int(N))
    X[k > 0.4 * N] = 0
    return np.fft.ifft(X, axis=0).astype(G.DT[spec["dtype"]])


def run_rt(case, stt):
    import pulsarbat as pb

    spec = case["sig"]
    N, rate = spec["n"], O.fq(spec["sr"])
    lo, hi, cf = band(spec)
    fr = ref_of(spec, case["ref"]) or cf
    dm = F(case["dm"])
    x = smooth_pulse(spec, case["w"])
    z = G.build(spec, data=x)
    kw = {} if case["ref"] == "none" else {"ref_freq": float(fr) * u.Hz}
    s1, e1, amb1, dmax, _ = expected_crop(spec, dm, fr, N)
    if amb1 or dmax > N / 6 or e1 - s1 < 8:
        stt.label("skip")
        return
    s2, e2, amb2, _, _ = expected_crop(spec, -dm, fr, e1 - s1)
    if amb2 or e2 - s2 < 4:
        stt.label("skip")
        return
    with lib("coherent_dedispersion(DM)"):
        y = pb.coherent_dedispersion(z, pb.DM(case["dm"]), **kw)
    with lib("coherent_dedispersion(-DM)"):
        w = pb.coherent_dedispersion(y, pb.DM(-case["dm"]), **kw)
    # the same two steps with the exact transfer functions (complex128)
    labels = G.exact_labels(spec)

    def step(v, d):
        n = v.shape[0]
        Hs = np.stack([exact_chirp(d, n, rate, f, fr)[0] for f in labels], axis=1)
        Hs = Hs.reshape(Hs.shape + (1,) * (v.ndim - 2))
        return np.fft.ifft(np.fft.fft(v.astype(np.complex128), axis=0) * Hs, axis=0)

    y_ref = step(x, dm)[s1:e1]
    w_ref = step(y_ref, -dm)[s2:e2]
    off = s1 + s2
    check(len(y) == e1 - s1 and len(w) == e2 - s2, "round trip lengths {} -> {} -> {}, expected {} -> {} -> {}", N, len(y), len(w), N, e1 - s1, e2 - s2)
    if z.start_time is not None:
        assert_start(w, O.T(z.start_time) + F(off) / rate, k=2, offset_s=F(off) / rate, what="DM then -DM: ")
    scale = float(np.max(np.abs(x)))
    tol = 4e-6 * (1 + math.log2(N)) * scale
    err = float(np.max(np.abs(np.asarray(w.data) - w_ref)))
    check(err <= tol, "DM then -DM differs from the exact two-step filter by {:.3g} (tol {:.3g})", err, tol)
    restore_ref = float(np.max(np.abs(w_ref - x[off : off + len(w_ref)])))
    restore = float(np.max(np.abs(np.asarray(w.data) - x[off : off + len(w)])))
    check(restore <= restore_ref + tol, "DM followed by -DM restores the input only to {:.3g} (the exact filters restore it to {:.3g}, tol {:.3g})",
          restore, restore_ref, tol)
    stt.nt(dmax >= 1 and restore_ref <= 1e-3 * scale)
    stt.label("ref_" + case["ref"])
    stt.label("restorable(<1e-3)" if restore_ref <= 1e-3 * scale else "tails_truncated")


# -- 3b. call histories: the same dedispersion repeated with one ingredient changed (caches, memoised chirps) -------------


@st.composite
def hist_case(draw):
    spec = draw(dd_spec(nmin=8, nmax=40, nchan_max=4))
    if spec["sshape"][0] % 2 and spec["sshape"][0] > 1 and draw(st.booleans()):
        spec["sshape"][0] -= 1  # even channel counts: alignment matters (one channel fewer keeps the band positive)
    dmv, sel = draw(dm_and_ref(spec))
    steps = [draw(st.sampled_from(["align", "align", "dm", "ref", "data", "cf_shift", "same", "dtype", "start", "rate"])) for _ in range(draw(st.integers(1, 4)))]
    return {"sig": spec, "dm": dmv, "ref": sel, "steps": steps, "pick": draw(st.integers(0, 10**6)), "one_object": draw(st.sampled_from([False, True, "refusals"]))}


def run_hist(case, stt):
    import copy

    cur = {"sig": copy.deepcopy(case["sig"]), "dm": case["dm"], "ref": case["ref"]}
    one = G.OneObject(case.get("one_object", False), cur["sig"])
    one.run(run_cdd, cur, stt)
    k = case["pick"]
    for i, step in enumerate(case["steps"]):
        cur = copy.deepcopy(cur)
        sg = cur["sig"]
        if step == "align":
            opts = [a for a in ("bottom", "center", "top") if a != sg["align"]]
            sg["align"] = opts[(k + i) % 2]
        elif step == "dm":
            cur["dm"] = cap_dm(sg, cur["dm"] * [2.0, -1.0, 0.5][(k + i) % 3], cur["ref"])
        elif step == "ref":
            cur["ref"] = REFSEL[(REFSEL.index(cur["ref"]) + 1 + (k + i) % 5) % len(REFSEL)]
            cur["dm"] = cap_dm(sg, cur["dm"], cur["ref"])
        elif step == "data":
            sg["data"] = {"kind": "noise", "seed": (k + i) % 1000}
        elif step == "cf_shift":
            sg["cf"] = dict(sg["cf"], v=sg["cf"]["v"] * 1.25)
            cur["dm"] = cap_dm(sg, cur["dm"], cur["ref"])
        elif step == "dtype":
            sg["dtype"] = "c16" if sg["dtype"] == "c8" else "c8"
        elif step == "start":
            sg["t0"] = None if sg["t0"] else {"mjd": 58000 + (k % 100), "frac": 0.25}
        elif step == "rate":
            # the same band sampled at another rate would not be a baseband signal of the same channels: scale band and rate together
            f = [2.0, 0.5][(k + i) % 2]
            sg["sr"] = dict(sg["sr"], v=sg["sr"]["v"] * f)
            sg["cf"] = dict(sg["cf"], v=sg["cf"]["v"] * f)
            cur["dm"] = cap_dm(sg, cur["dm"], cur["ref"])
        one.run(run_cdd, cur, stt)
        stt.label("hist_" + step)
    stt.label("one_object_reassigned" if one.reused > 1 else "fresh_objects")
    stt.nt("align" in case["steps"] and case["sig"]["sshape"][0] % 2 == 0)


# -- 3c. long signals (beyond 2^16 samples, lengths with large prime factors) ---------------------------------------------


@st.composite
def long_case(draw):
    n = draw(st.sampled_from([65537, 70001, 65536 + 4097, 100003, 2**17 + 1, 90000]))
    spec = draw(dd_spec(nmin=n, nmax=n, nchan_max=1))
    spec["n"], spec["cls"], spec["sshape"] = n, "BasebandSignal", [1]
    spec.pop("pol", None)
    dmv, sel = draw(dm_and_ref(spec))
    lo, hi, cf = band(spec)
    fr = ref_of(spec, sel) or cf
    d1 = max(abs(O.disp_delay_s(F(1), f, fr) * O.fq(spec["sr"])) for f in (lo, hi))
    if d1 > 0:
        dmv = cap_dm(spec, math.copysign(float(F(draw(st.floats(0.001, 0.05)) * n) / d1), dmv), sel)
    return {"sig": spec, "dm": dmv, "ref": sel}


# -- 4. refusals ----------------------------------------------------------------------------------------------------------


def run_err(spec, stt):
    import pulsarbat as pb

    z = G.build(spec)
    must_raise("coherent_dedispersion of a non-baseband signal", lambda: pb.coherent_dedispersion(z, pb.DM(1.0)), (TypeError,))
    must_raise("chirp_from_signal of a non-baseband signal", lambda: pb.DM(1.0).chirp_from_signal(z), (TypeError,))
    stt.nt()


SUBS = [
    Sub("chirp", chirp_case(), run_chirp,
        "DM of either sign over 7 decades (scaled to keep float64-resolvable phases), N 1..96, nchan 1..4, all alignments, units for dt and "
        "frequencies, reference none/centre/edges/outside/inside; non-trivial = max |phase| >= 1 cycle and (reference not the centre or N not "
        "a power of two)", quick=1200, thorough=20000, pieces_quick=4),
    Sub("dedispersed_data", cdd_case(), run_cdd,
        "N 8..512 (not only 2^k), nchan 1..4, c8/c16, trailing dims, DM scaled so that band-edge delays range from 0 to beyond N; non-trivial = "
        "DM != 0, an edge delay >= 1 sample, and (N not a power of two or reference not the centre)", quick=1200, thorough=20000, pieces_quick=6),
    Sub("roundtrip", rt_case(), run_rt,
        "Gaussian-envelope band-limited pulse, DM then -DM, compared with the same two steps done with the exact transfer functions and "
        "required to restore the input as well as those do; non-trivial = edge delay >= 1 sample and the exact filters restore to 1e-3", quick=300, thorough=5000,
        pieces_quick=3),
    Sub("call_history", hist_case(), run_hist,
        "the same coherent dedispersion repeated 2..5 times in one process with exactly one ingredient changed per step (freq_align, DM, "
        "reference, data, centre frequency, dtype, start time, sample rate with the band), each result checked against the exact filter; half of the histories run on ONE signal object re-assigned through its setters / in-place ufuncs between the calls, the others on fresh signals; non-trivial = an alignment change "
        "on an even channel count", quick=300, thorough=6000, pieces_quick=4),
    Sub("long_signals", long_case(), lambda case, stt: (run_cdd(case, stt), stt.nt())[0],
        "N in {65537, 69633, 70001, 90000, 100003, 131073} (beyond 2^16, not smooth), one channel, exact per-bin transfer function; all "
        "non-trivial", quick=8, thorough=64, pieces_quick=2, pieces_thorough=8, budget_quick=120),
    Sub("refusals", G.signal_spec(classes=["Signal", "RadioSignal", "IntensitySignal", "FullStokesSignal"], nmin=2, nmax=8, nchan_max=2,
                                  max_trailing=0), run_err, "non-baseband input must raise TypeError", quick=40, thorough=400, pieces_quick=1),
]

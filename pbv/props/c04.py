"""C04 -- freq_shift moves the spectrum by the given amount, zeroing what leaves the band."""

import math

EPS = 2.220446049250313e-16
from fractions import Fraction as F

import numpy as np
import astropy.units as u
from hypothesis import strategies as st

from ..core import Sub, check, lib, must_raise
from .. import oracle as O, gen as G
from ..contract import contract, same_meta, same_start, bits_equal

ASSUMPTIONS = [
    "reference = longdouble DFT matrix (numpy.fft complex128 for N > 128); comparison in the frequency domain (fftshift order) so that the single boundary bin can be left "
    "unconstrained when the requested shift, after the float conversions of the Quantity, is within 1e-9 of a whole bin",
    "tolerance per bin: N * tol_sample with tol_sample = 2e-6*(1+log2 N)*max|x| for complex64 data (the mixing phasor is cast to the data "
    "dtype) and 1e-11*(1+log2 N)*max|x| for complex128",
]


@st.composite
def fs_case(draw, nmax=64):
    spec = draw(G.signal_spec(classes=G.BASEBAND, nmin=1, nmax=nmax, nchan_max=3, max_trailing=1, sr=G.freq_q(-1, 9),
                              data_kinds=("noise", "impulse", "tone", "noise")))
    N, ss = spec["n"], spec["sshape"]
    if spec["data"]["kind"] == "tone":
        # edge tones: content right at the band edge is what wraps first
        spec["data"]["k"] = draw(st.sampled_from([-(N // 2), (N - 1) // 2, 0, -(N // 2) + 1 if N > 2 else 0]))
    aval = st.one_of(st.integers(-4, 4).map(F), st.integers(-N - 2, N + 2).map(F),
                     st.tuples(st.integers(-N - 1, N), st.integers(1, 1023)).map(lambda t: F(t[0]) + F(t[1], 1024)),
                     st.tuples(st.integers(-2, 1), st.integers(1, 1023)).map(lambda t: F(t[0]) + F(t[1], 1024)),
                     # a tiny fraction of a bin is still a shift: one bin wraps
                     st.sampled_from([F(1, 10**9), -F(1, 10**9), F(1, 2**30), -F(1, 10**7), F(1, 10**12)]))
    form = draw(st.sampled_from(["scalar", "scalar", "arr", "arr", "arr1"]))
    if form == "scalar":
        shp = []
    elif form == "arr1":
        shp = [1]
    else:
        k = draw(st.integers(1, len(ss)))
        shp = [d if draw(st.booleans()) else 1 for d in ss[:k]]
    n = int(np.prod(shp)) if shp else 1
    bins = draw(st.lists(aval, min_size=n, max_size=n))
    un = draw(st.sampled_from(["Hz", "kHz", "1/s", "MHz"]))
    rate = O.fq(spec["sr"])
    vals = [float(a * rate / N / O.FREQ_UNITS[un]) for a in bins]
    # dtype of the shift Quantity: double (usual), single (values rounded to single first, the oracle uses what is passed), int64 when whole
    vk = draw(st.sampled_from(["f8", "f8", "f8", "f4", "i8"]))
    if vk == "f4":
        vals = [float(np.float32(v)) for v in vals]
        if not all(np.isfinite(vals)):
            vk = "f8"
    elif vk == "i8" and not all(float(v).is_integer() and abs(v) < 2**53 for v in vals):
        vk = "f8"
    return {"sig": spec, "shape": shp, "vals": vals, "unit": un, "vk": vk}


def run_fs(case, stt):
    import pulsarbat as pb

    spec = case["sig"]
    z = G.build(spec)
    x = z.data.copy()
    N, ss = spec["n"], tuple(spec["sshape"])
    rate = O.fq(spec["sr"])
    vals = np.array(case["vals"], dtype=np.float64).reshape(case["shape"])
    arg = vals * O.unit(case["unit"]) if case["shape"] else float(vals) * O.unit(case["unit"])
    vk = case.get("vk", "f8")
    if vk == "f4" and case["unit"] not in ("Hz", "1/s"):
        vk = "f8"  # a single-precision value in a scaled unit is converted to Hz in single precision: input precision, not exercised
    if vk != "f8" and all(float({"f4": np.float32, "i8": np.int64}[vk](v)) == v for v in np.ravel(vals)):
        arg = u.Quantity(arg.value.astype({"f4": np.float32, "i8": np.int64}[vk]), arg.unit, dtype={"f4": np.float32, "i8": np.int64}[vk])
        stt.label("shift_dtype_" + vk)
    with lib("freq_shift"):
        y = pb.freq_shift(z, arg)
    contract(y, "freq_shift")
    check(type(y) is type(z), "freq_shift: type changed to {}", type(y).__name__)
    check(y.data.dtype == x.dtype and y.shape == x.shape, "freq_shift: dtype/shape {} {} -> {} {}", x.dtype, x.shape, y.data.dtype, y.shape)
    same_meta(y, z, "freq_shift: ")
    same_start(y, z, "freq_shift: ")
    # exact shift in bins per element, as the library receives it
    a_exact = [F(v) * O.FREQ_UNITS[case["unit"]] * N / rate for v in np.ravel(vals)]
    ash = case["shape"] + [1] * (len(ss) - len(case["shape"]))
    a_arr = np.empty(len(a_exact), dtype=object)
    a_arr[:] = a_exact
    a_b = np.broadcast_to(a_arr.reshape(ash), ss)
    out = np.asarray(y.data)
    scale = float(np.max(np.abs(x)))
    tol_s = (2e-6 if x.dtype == np.complex64 else 1e-11) * (1 + math.log2(max(N, 2))) * scale
    n_idx = np.arange(N)
    big = N > 128  # large-N sub-check: numpy.fft in complex128 as the reference transform
    fwd = (lambda v: np.fft.fft(np.asarray(v).astype(np.complex128), axis=0)) if big else (lambda v: np.asarray(O.dft(v, axis=0)))
    X = np.fft.fftshift(fwd(x), axes=0)
    Yout = np.fft.fftshift(fwd(out), axes=0)
    any_wrap = False
    for ix in np.ndindex(ss):
        a = a_b[ix]
        col = x[(slice(None),) + ix]
        if big:
            an, ad = a.numerator, a.denominator * N
            cyc = np.array([((an * int(n)) % ad) / ad for n in n_idx], dtype=np.float64)
            mixed = col.astype(np.complex128) * np.exp(2j * np.pi * cyc)
        else:
            cyc = np.array([float((a * int(n) / N) % 1) for n in n_idx], dtype=O.LD)
            mixed = col.astype(O.CLD) * O.cis_cycles_ld(cyc)
        Yref = np.fft.fftshift(fwd(mixed))
        # The inputs define the shift a (in bins) exactly.  An exactly whole a must be treated as whole (|a| bins cleared, the rest an
        # exact move).  A fractional a within float-evaluation error (df*dt*N: a dozen eps) of a whole number may be evaluated to
        # either side: there the boundary bin is not constrained.
        near = abs(a - round(a))
        d = F(0) if (a.denominator == 1 or near > 12 * F(EPS) * abs(a)) else 12 * F(EPS) * abs(a)
        aa = abs(a)
        lo = min(N, math.ceil(aa - d)) if aa - d > 0 else 0
        hi = min(N, math.ceil(aa + d))
        if a > 0:
            zreg, rest = slice(0, lo), slice(hi, N)
        elif a < 0:
            zreg, rest = slice(N - lo, N), slice(0, N - hi)
        else:
            zreg, rest = slice(0, 0), slice(0, N)
        got = Yout[(slice(None),) + ix]
        zr = np.abs(got[zreg])
        if zr.size:
            any_wrap = True
        check(zr.size == 0 or float(np.max(zr)) <= N * tol_s,
              "freq_shift: element {} shifted by {} bins: a bin that content wrapped into holds {:.3g} (tol {:.3g})", ix, float(a),
              float(np.max(zr)) if zr.size else 0.0, N * tol_s)
        err = np.abs(got[rest] - Yref[rest])
        check(err.size == 0 or float(np.max(err)) <= N * tol_s,
              "freq_shift: element {} shifted by {} bins: spectrum differs from DFT(x*exp(2 pi i df t)) by {:.3g} (tol {:.3g}, N={})",
              ix, float(a), float(np.max(err)) if err.size else 0.0, N * tol_s, N)
        if a.denominator == 1 and abs(a) < N:
            ai = int(a)
            # whole bins: exact circular move of the input spectrum (bins that stay in band)
            src = X[(slice(None),) + ix]
            # (including the bin next to the cleared region: 6 Hz * 0.1 s * 5 evaluates to 3.0000000000000004 in floats and is
            #  nevertheless a shift of exactly 3 bins -- F25)
            moved = src[: N - ai] if ai > 0 else src[-ai:] if ai < 0 else src
            dst = got[ai:] if ai > 0 else got[: N + ai] if ai < 0 else got
            e2 = np.abs(dst - moved)
            check(e2.size == 0 or float(np.max(e2)) <= N * tol_s, "freq_shift: whole-bin shift {} is not a move of the spectrum (err {:.3g})",
                  ai, float(np.max(e2)) if e2.size else 0.0)
        if abs(a) >= N + d:
            check(not np.any(out[(slice(None),) + ix] != 0), "freq_shift: |shift| >= bandwidth but element {} is not all-zero", ix)
    ssz = int(np.prod(ss))
    lower_rank = tuple(case["shape"]) != ss
    stt.nt(ssz > 1 and lower_rank and any_wrap)
    stt.label("form_" + ("scalar" if not case["shape"] else "full" if not lower_rank else "broadcast"))
    stt.label("unit_" + case["unit"])
    stt.label("dtype_" + spec["dtype"])
    stt.label("data_" + spec["data"]["kind"])
    stt.label("beyond_band" if any(abs(a) >= N for a in a_exact) else "in_band")


@st.composite
def big_case(draw):
    n = draw(st.sampled_from([1000, 1024, 2048, 3001, 4096, 6075, 8192]))
    spec = draw(G.signal_spec(classes=["BasebandSignal"], nmin=n, nmax=n, nchan_max=2, max_trailing=0, sr=G.freq_q(0, 9), data_kinds=("noise",)))
    spec["n"] = n
    base = draw(st.integers(-n + 1, n - 1))
    frac = draw(st.sampled_from([F(0), F(1, 50), F(1, 2), F(1, 1000), F(1, 4), F(1, 1024), -F(1, 50)]))
    a = F(base) + frac
    un = draw(st.sampled_from(["Hz", "kHz", "MHz"]))
    rate = O.fq(spec["sr"])
    return {"sig": spec, "shape": [], "vals": [float(a * rate / n / O.FREQ_UNITS[un])], "unit": un}


@st.composite
def huge_case(draw):
    """N ~ 10^6: bin counts of 10^5 .. 10^6 with a small fractional part (a relative snapping tolerance would swallow it), complex128 data"""
    n = draw(st.sampled_from([2**20, 2**20 + 2, 1500000, 2**21]))
    spec = draw(G.signal_spec(classes=["BasebandSignal"], nmin=1, nmax=1, nchan_max=1, max_trailing=0, sr=G.freq_q(0, 9), data_kinds=("noise",),
                              dtypes=["c16"], start="none", with_meta=False))
    spec["n"] = n
    base = draw(st.integers(n // 2, n - 2)) * draw(st.sampled_from([1, -1]))
    frac = draw(st.sampled_from([F(1, 2**11), F(1, 10**4), F(1, 2), F(0), F(1, 2**13), -F(1, 2**11), F(1, 10**5)]))
    a = F(base) + frac
    rate = O.fq(spec["sr"])
    return {"sig": spec, "shape": [], "vals": [float(a * rate / n)], "unit": "Hz"}


def run_big(case, stt):
    run_fs(case, stt)
    N = case["sig"]["n"]
    a = abs(F(case["vals"][0]) * O.FREQ_UNITS[case["unit"]] * N / O.fq(case["sig"]["sr"]))
    stt.nt(a >= 500 and a.denominator != 1)


# -- histories: the same call repeated with exactly one ingredient changed (hidden state / caches) ---------


@st.composite
def hist_case(draw):
    base = draw(fs_case(nmax=24))
    steps = []
    for _ in range(draw(st.integers(1, 4))):
        kind = draw(st.sampled_from(["rate", "rate", "data", "shift", "unit", "cf", "same"]))
        steps.append([kind, draw(st.sampled_from([2.0, 0.5, 4.0, 3.0, 0.25])), draw(st.integers(0, 2**31 - 1))])
    return {"base": base, "steps": steps, "one_object": draw(st.sampled_from([False, True, "refusals"]))}


def run_hist(case, stt):
    import copy

    cur = copy.deepcopy(case["base"])
    one = G.OneObject(case.get("one_object", False), cur["sig"])
    one.run(run_fs, cur, stt)
    for kind, fac, seed in case["steps"]:
        cur = copy.deepcopy(cur)
        if kind == "rate":
            cur["sig"]["sr"]["v"] *= fac  # same shift in Hz, other sample rate -> other number of bins
        elif kind == "data":
            cur["sig"]["data"] = {"kind": "noise", "seed": seed}
        elif kind == "shift":
            cur["vals"] = [v * fac for v in cur["vals"]]
        elif kind == "unit":
            old, new = cur["unit"], ["Hz", "kHz", "MHz", "1/s"][seed % 4]
            cur["vals"] = [float(F(v) * O.FREQ_UNITS[old] / O.FREQ_UNITS[new]) for v in cur["vals"]]
            cur["unit"] = new
        elif kind == "cf":
            cur["sig"]["cf"]["v"] *= fac
        one.run(run_fs, cur, stt)
        stt.label("hist_" + kind)
    stt.label("one_object_reassigned" if one.reused > 1 else "fresh_objects")
    stt.nt(any(k == "rate" for k, _, _ in case["steps"]))


@st.composite
def err_case(draw):
    kind = draw(st.sampled_from(["not_baseband", "bad_unit", "too_many_dims", "not_quantity"]))
    cls = ["Signal", "RadioSignal", "IntensitySignal"] if kind == "not_baseband" else G.BASEBAND
    spec = draw(G.signal_spec(classes=cls, nmin=2, nmax=12, nchan_max=3, max_trailing=1))
    return {"kind": kind, "sig": spec}


def run_err(case, stt):
    import pulsarbat as pb

    z = G.build(case["sig"])
    k = case["kind"]
    if k == "not_baseband":
        must_raise("freq_shift of a non-baseband signal", lambda: pb.freq_shift(z, 1 * u.Hz), (TypeError,))
    elif k == "bad_unit":
        must_raise("freq_shift by a time quantity", lambda: pb.freq_shift(z, 1 * u.s), (ValueError,))
    elif k == "not_quantity":
        must_raise("freq_shift by a bare number", lambda: pb.freq_shift(z, 1.0), (ValueError,))
    else:
        must_raise("freq_shift with too many shift dimensions", lambda: pb.freq_shift(z, np.ones((1,) * z.ndim) * u.Hz), (ValueError,))
    stt.nt()
    stt.label(k)


SUBS = [
    Sub("spectrum_vs_dft", fs_case(), run_fs,
        "baseband classes, N 1..64, c8/c16, channel/pol/trailing shapes, shift scalar/(1,)/lower-rank/length-1-axes/full in Hz/kHz/MHz/1/s, "
        "whole/fractional bins, either sign, beyond the band; non-trivial = more than one sample element, a shift of lower rank than the "
        "sample shape (scalar included) and at least one wrapped bin", quick=4000, thorough=80000, pieces_quick=6),
    Sub("large_N", big_case(), run_big,
        "N in {1000..8192}, shifts of hundreds to thousands of bins with small fractional parts, numpy.fft complex128 reference; non-trivial = "
        "|shift| >= 500 bins with a non-zero fractional part", quick=160, thorough=3000, pieces_quick=4),
    Sub("huge_N", huge_case(), run_big,
        "N in {2^20, 2^20+2, 1.5e6, 2^21}, one channel, complex128, shifts of N/2 .. N bins plus a fractional part of 2^-13 .. 1/2 bin (or none); "
        "non-trivial as for large_N", quick=8, thorough=64, pieces_quick=2, pieces_thorough=8, budget_quick=150),
    Sub("call_history", hist_case(), run_hist,
        "the same freq_shift call repeated 2..5 times in one process with exactly one ingredient changed per step (sample rate with the "
        "same shift in Hz, data, shift value, unit spelling, centre frequency), each result checked against the DFT oracle; half of the histories run on ONE signal object re-assigned through its setters / in-place ufuncs between the calls, the others on fresh signals; non-trivial = "
        "a step that changes only the sample rate", quick=600, thorough=10000, pieces_quick=4),
    Sub("refusals", err_case(), run_err, "non-baseband signal / non-frequency shift / too many shift dimensions must raise; all non-trivial",
        quick=120, thorough=1500),
]

"""C08 -- polyco prediction equals the tempo formula on every entry's span."""

import io
import math
import os
import tempfile
from decimal import Decimal, getcontext, ROUND_FLOOR
from fractions import Fraction as F

import numpy as np
import astropy.units as u
from astropy.time import Time
from hypothesis import strategies as st

from ..core import Sub, check, lib, must_raise, Violation
from .. import oracle as O

getcontext().prec = 60
ASSUMPTIONS = [
    "oracle: RPHASE + 60*DT*F0 + sum COEFF(i)*DT^(i-1) in exact rationals, every constant parsed from its decimal string; DT from the exact "
    "two-double difference between the query time and Time(TMID string, format='mjd') (astropy's own decimal parsing of TMID is trusted)",
    "TMIDs lie in MJD 58000..60000 (no leap seconds) so that UTC-day arithmetic and elapsed seconds coincide",
    "tolerance 1e-8 cycles; generator keeps 30*F0*span <= 4e6 cycles and every polynomial term <= 1e5 cycles so float64 evaluation can meet it",
    "a time is compared with the formula of ANY entry whose span (+-1 ms) contains it; entries of 'random' mode need not agree where they overlap",
    "gaps between spans are never generated within 0.05 ms of the 1 ms merge tolerance",
]

EXPO = ["e", "E", "D", "d"]


def sci(x, letter, digits=17, style="full"):
    """decimal string of Fraction x with `digits` significant digits in exponent notation; style "short": as a person (or a list-directed
    Fortran WRITE) would put it -- trailing zeros dropped, "2.D-09" / "2e-09" for a whole mantissa, "0" or "0." for zero"""
    if x == 0:
        return {"full": "0.00000000000000000" + letter + "+00", "short": "0", "short_dot": "0."}[style]
    d = Decimal(x.numerator) / Decimal(x.denominator)
    s = format(d, "." + str(digits if style == "full" else 6) + "e")
    mant, ex = s.split("e")
    exi = int(ex)
    if style != "full":
        mant = mant.rstrip("0")
        if mant.endswith(".") and style == "short":
            mant = mant[:-1]
    return mant + letter + ("+" if exi >= 0 else "-") + "%02d" % abs(exi)


def dec(x, places):
    d = Decimal(x.numerator) / Decimal(x.denominator)
    return format(d.quantize(Decimal(1).scaleb(-places), rounding=ROUND_FLOOR), "f")


@st.composite
def polyco(draw, mode=None, extra=0):
    ncoeff = draw(st.sampled_from([2, 3, 4, 7, 12, 13, 15, 5]))
    span = draw(st.sampled_from([15, 30, 60, 90, 120, 360, 1440]))
    f0max = min(1000.0, 4e6 / (span * 30))
    f0 = F(draw(st.integers(10**11, int(f0max * 10**12))), 10**12)
    nent = draw(st.integers(1, 6))
    mode = mode or draw(st.sampled_from(["model", "random"]))
    letter = draw(st.sampled_from(EXPO))
    style = draw(st.sampled_from(["full", "full", "full", "short", "short_dot"]))
    if mode == "model" and extra is not None and draw(st.booleans()):
        style = "full"  # (entries rounded to six digits no longer agree with each other where they overlap: kept to half of the model texts)
    day0 = draw(st.integers(58000, 59990))
    min0 = draw(st.integers(0, 1439))
    gaps_ms = [draw(st.sampled_from([0, 0, 0, 0.5, 0.9, 1.5, 5000, 3600000, -60000, -span * 30000, 0.2,
                                        # observing sessions days to months apart in one file
                                        8.64e8, 1.2096e10])) for _ in range(nent - 1)]
    if mode == "model":
        gaps_ms = [g for g in gaps_ms]
    taus = [F(0)]
    for g in gaps_ms:
        taus.append(taus[-1] + span + F(g) / 60000)
    tmids = [F(day0) + (F(min0) + t) / 1440 for t in taus]
    tmid_s = [dec(t, 11) for t in tmids]
    # what the strings say (minutes from the first TMID string)
    tau_s = [(F(Decimal(s)) - F(Decimal(tmid_s[0]))) * 1440 for s in tmid_s]
    H = max(F(span), tau_s[-1] + span)
    R0 = draw(st.integers(0, 10**12))
    fdig = draw(st.integers(6, 10))
    entries = []
    if mode == "model":
        # (extra > 0: the model may have more terms than an entry holds, so entries are TRUNCATED expansions -- right on their own span to
        # the digits printed, but no longer one and the same polynomial: extrapolating an entry beyond its span gives another phase)
        m = draw(st.integers(1, ncoeff - 1 + extra))
        a = {}
        for k in range(2, m + 1):
            lim = min(F(1000), F(1, 100) * 60 * f0 * H / k)
            mag = lim * F(draw(st.integers(1, 1000)), 1000) * F(1, 10 ** draw(st.integers(0, 4)))
            a[k] = mag * draw(st.sampled_from([-1, 1])) / H**k
        r0frac = F(draw(st.integers(0, 10**9)), 10**9)
        for ts, tau in zip(tmid_s, tau_s):
            # Taylor expansion of phi(t) = R0 + 60 F0 t + sum a_k t^k about tau
            c = [F(0)] * ncoeff
            c[0] = R0 + r0frac + 60 * f0 * tau + sum(ak * tau**k for k, ak in a.items())
            if ncoeff > 1:
                c[1] = sum(ak * k * tau ** (k - 1) for k, ak in a.items())
            for i in range(2, ncoeff):
                c[i] = sum(ak * math.comb(k, i) * tau ** (k - i) for k, ak in a.items() if k >= i)
            rph = dec(c[0], fdig)
            c[0] = c[0] - F(Decimal(rph))
            entries.append({"tmid": ts, "rphase": rph, "coeffs": [sci(x, letter, style=style) for x in c]})
    else:
        h = F(span, 2)
        for ts, tau in zip(tmid_s, tau_s):
            c = []
            for i in range(ncoeff):
                top = F(100) if i else F(1, 10**5)
                mag = top * F(draw(st.integers(1, 1000)), 1000) * F(1, 10 ** draw(st.integers(0, 6)))
                c.append(mag * draw(st.sampled_from([-1, 1])) / h**i)
            base = R0 + 60 * f0 * tau
            rph = dec(F(math.floor(base)) + F(draw(st.integers(0, 10**fdig - 1)), 10**fdig), fdig)
            entries.append({"tmid": ts, "rphase": rph, "coeffs": [sci(x, letter, style=style) for x in c]})
    return {"mode": mode, "truncated": mode == "model" and (m > ncoeff - 1 or style != "full"), "consistent": style == "full", "f0": dec(f0, 12), "span": span, "ncoeff": ncoeff, "entries": entries, "psr": draw(st.sampled_from(["B1937+21", "J0437-4715"])),
            "via": draw(st.sampled_from(["stringio", "stringio", "file"])), "ending": draw(st.sampled_from(["one", "one", "one", "none", "blank_line", "blanks"]))}


def render(pc, subset=None):
    lines = []
    ents = pc["entries"] if subset is None else [pc["entries"][i] for i in subset]
    for e in ents:
        lines.append("%-10s %9s%11s%20s%21s %6s%7s" % (pc["psr"], "6-May-18", "223000.00", e["tmid"], "71.020168", "-0.713", "-6.294"))
        lines.append("%20s%18s%5s%5d%5d%10s" % (e["rphase"], pc["f0"], "ao", pc["span"], pc["ncoeff"], "327.000"))
        cs = e["coeffs"]
        for i in range(0, len(cs), 3):
            lines.append("".join("%25s" % c for c in cs[i : i + 3]))
    # (text files end in a newline; some editors and concatenations leave an empty line or trailing blanks behind it)
    return "\n".join(lines) + {"one": "\n", "blank_line": "\n\n", "blanks": "\n   \n", "none": ""}[pc.get("ending", "one")]


def load(pc):
    import pulsarbat as pb

    text = render(pc)
    with lib("PhasePredictor.from_polyco"):
        if pc["via"] == "file":
            fd, path = tempfile.mkstemp(prefix="pbv-polyco-", suffix=".dat")
            try:
                with os.fdopen(fd, "w") as fh:
                    fh.write(text)
                return pb.PhasePredictor.from_polyco(path)
            finally:
                os.unlink(path)
        return pb.PhasePredictor.from_polyco(io.StringIO(text))


class Entry:
    def __init__(self, pc, e):
        self.tmid = Time(e["tmid"], format="mjd", scale="utc", precision=9)
        self.T = O.T(self.tmid)
        self.R = F(Decimal(e["rphase"]))
        self.f0 = F(Decimal(pc["f0"]))
        self.c = [F(Decimal(c.lower().replace("d", "e"))) for c in e["coeffs"]]
        self.half = F(pc["span"]) * 30  # seconds

    def contains(self, T, slack=F(1, 1000)):
        return abs(T - self.T) <= self.half + slack

    def phase(self, T):
        dt = T - self.T
        m = dt / 60
        return self.R + self.f0 * dt + sum(ci * m**i for i, ci in enumerate(self.c))

    def deriv(self, T, k):
        """k-th derivative (k >= 1) with respect to seconds, and the sum of |terms| (for a relative tolerance)"""
        dt = T - self.T
        m = dt / 60
        tot = self.f0 if k == 1 else F(0)
        mag = abs(tot)
        for i, ci in enumerate(self.c):
            if i >= k:
                term = ci * math.perm(i, k) * m ** (i - k) / F(60) ** k
                tot += term
                mag += abs(term)
        return tot, mag


def merged_intervals(ents):
    iv = sorted((e.T - e.half, e.T + e.half) for e in ents)
    out = [list(iv[0])]
    for a, b in iv[1:]:
        if a <= out[-1][1] + F(1, 1000):
            out[-1][1] = max(out[-1][1], b)
        else:
            out.append([a, b])
    return out


@st.composite
def predict_case(draw):
    pc = draw(polyco())
    n = len(pc["entries"])
    subset = None
    if n >= 2 and draw(st.integers(0, 2)) == 0:
        k = draw(st.integers(1, n))
        subset = draw(st.permutations(range(n)))[:k]
        if draw(st.integers(0, 2)) > 0:
            subset = sorted(subset)  # (otherwise: rows picked in any order, e.g. predictor[[3, 0, 2]] or predictor[::-1])
    idx = list(range(n)) if subset is None else subset
    qs = []
    for _ in range(draw(st.integers(1, 6))):
        j = draw(st.sampled_from(idx))
        uu = draw(st.one_of(st.floats(-0.5, 0.5), st.sampled_from([-0.5, 0.5, 0.0, 0.499999, -0.499999, 0.25, -0.4])))
        off = uu * pc["span"] * 60
        if draw(st.integers(0, 5)) == 0:
            # a few hundred nanoseconds inside the entry's own span: closer to the boundary than one float64 MJD can tell (0.6 us)
            off = draw(st.sampled_from([-1, 1])) * (pc["span"] * 30 - draw(st.sampled_from([1e-7, 2e-7, 4e-7, 6e-7])))
        qs.append([j, off])
    arr_shape = draw(st.sampled_from(["scalar", "1d", "2d", "col"]))
    return {"pc": pc, "subset": subset, "q": qs, "arr": arr_shape, "x": draw(st.floats(-0.25, 0.25)), "deriv_n": draw(st.integers(0, 2)),
            "subset_via": draw(st.sampled_from(["table", "table", "text"])), "warm_parent": draw(st.booleans()),
            # the time scale the query times are written in (the instants are the same)
            "tscale": draw(st.sampled_from(["utc", "utc", "tai", "tt"]))}


def q_time(ents_all, j, off):
    return ents_all[j].tmid + off * u.s


def pred_exact(p):
    return O.phase_fractions(p)


def covering(ents, T):
    """the entries a prediction at T may be evaluated from: those whose span contains T (100 ps of slack for the rounding of a Time); only when
    there is none -- T in a gap of under a millisecond, which the validity intervals bridge -- the neighbours within 1 ms"""
    c = [e for e in ents if e.contains(T, slack=F(1, 10**10))]
    return c or [e for e in ents if e.contains(T)]


def check_phase(got, T, ents, what):
    c = covering(ents, T)
    check(c, "{}: harness: no candidate entry", what)
    errs = [abs(got - e.phase(T)) for e in c]
    check(min(errs) <= F(1, 10**8), "{}: predicted phase {!r} differs from the tempo formula of every entry whose span contains the time by >= {:.3g} cycles "
          "(candidates: {})", what, float(got), float(min(errs)), len(c))
    return c[errs.index(min(errs))]


def run_predict(case, stt):
    import pulsarbat as pb

    pc = case["pc"]
    all_ents = [Entry(pc, e) for e in pc["entries"]]
    pred = load(pc)
    check(type(pred) is pb.PhasePredictor and len(pred) == len(all_ents), "from_polyco returned {} entries for {} in the text", len(pred), len(all_ents))
    sub = case["subset"]
    if sub is not None:
        if case["subset_via"] == "table":
            # rows are sorted by tmid == generation order
            with lib("predictor[rows]"):
                if case.get("warm_parent"):
                    # the parent has been used before the subset is taken (anything it caches must not leak into the subset)
                    _ = pred.intervals
                    _ = pred(all_ents[0].tmid)
                pred = pred[sub]
        else:
            pc2 = dict(pc, entries=[pc["entries"][i] for i in sorted(sub)], via="stringio")
            pred = load(pc2)
        ents = [all_ents[i] for i in sub]
    else:
        ents = all_ents
    # intervals
    with lib("intervals"):
        iv = pred.intervals
    exp_iv = merged_intervals(ents)
    check(len(iv) == len(exp_iv), "intervals: {} intervals, the spans merge (1 ms tolerance) into {}", len(iv), len(exp_iv))
    for (a, b), (ea, eb) in zip(iv, exp_iv):
        check(abs(O.T(a) - ea) <= F(1, 10**9) and abs(O.T(b) - eb) <= F(1, 10**9), "intervals: [{}, {}] differs from the merged spans", a.mjd, b.mjd)
    tscale = case.get("tscale", "utc")
    half = pc["span"] * 30.0
    # (a time exactly on a span edge, re-expressed in another scale, comes back ~1e-11 s off: which side it lands on is astropy's rounding)
    qs = [(j, off if tscale == "utc" else max(-half + 1e-6, min(half - 1e-6, off))) for j, off in case["q"]]
    times = [getattr(q_time(all_ents, j, off), tscale) for j, off in qs]
    Ts = [O.T(t) for t in times]
    stt.label("times_in_" + tscale)
    # scalar predictions
    first = []
    with lib("predictor(time)"):
        for t in times:
            first.append(pred(t))
    used = []
    for t, T, ph in zip(times, Ts, first):
        check(type(ph) is pb.Phase, "prediction is a {}", type(ph).__name__)
        used.append(check_phase(pred_exact(ph)[0], T, ents, "scalar time"))
    # array predictions (1-d, 2-d with rows in different entries, column)
    tt = Time([t.jd1 for t in times], [t.jd2 for t in times], format="jd", scale=tscale)
    if case["arr"] == "2d" and len(times) >= 2:
        k = len(times) // 2 * 2
        srt = sorted(range(k), key=lambda i: Ts[i])
        arr = tt[srt].reshape(2, k // 2)
        flat_T = [Ts[i] for i in srt]
    elif case["arr"] == "col":
        srt = sorted(range(len(times)), key=lambda i: Ts[i])
        arr = tt[srt].reshape(len(times), 1)
        flat_T = [Ts[i] for i in srt]
    else:
        arr, flat_T = tt, Ts
    with lib("predictor(time array)"):
        pa = pred(arr)
    check(pa.shape == arr.shape, "array prediction shape {} != {}", pa.shape, arr.shape)
    for g, T in zip(pred_exact(pa), flat_T):
        check_phase(g, T, ents, "time array of shape %s" % (arr.shape,))
    # frequency and derivatives
    n = case["deriv_n"]
    with lib("f0"):
        fa = pred.f0(arr, n)
        fs = pred.f0(times[0], n)
    check(fa.unit == u.cycle / u.s ** (n + 1), "f0 unit {}", fa.unit)
    for g, T in zip(np.ravel(fa.value), flat_T):
        ok = False
        for e in covering(ents, T):
            if True:
                ex, mag = e.deriv(T, n + 1)
                if abs(F(float(g)) - ex) <= F(1, 10**9) * mag + F(1, 10**300):
                    ok = True
        check(ok, "f0(t, n={}) = {!r} is not the exact derivative of any entry containing the time", n, float(g))
    # phasepol around a reference time
    t0, T0 = times[0], Ts[0]
    with lib("phasepol"):
        pol, ref = pred.phasepol(t0)
    refv = pred_exact(ref)[0]
    e0 = None
    for x in (0.0, case["x"] * pc["span"] * 60, -case["x"] * pc["span"] * 30):
        val = refv + F(float(pol(x)))
        Tx = T0 + F(x)
        cands = covering(ents, T0)
        errs = [abs(val - e.phase(Tx)) for e in cands]
        check(min(errs) <= F(1, 10**8) + F(4 * 2.2e-16) * abs(F(float(pol(x)))),
              "phasepol(t0): ref + pol({}) = {!r} differs from the entry formula at t0 + x by {:.3g} cycles", x, float(val), float(min(errs)))
    check(0 <= pol(0) < 1 + 1e-9, "phasepol: pol(0) = {} is not a fractional phase", pol(0))
    # no hidden state: the same predictions again, bit for bit
    with lib("predictor(time) again"):
        again = [pred(t) for t in times]
        pa2 = pred(arr)
        fa2 = pred.f0(arr, n)
    for a, b in zip(first, again):
        check(a.view(np.ndarray).tobytes() == b.view(np.ndarray).tobytes(), "prediction changed after phasepol/f0/intervals calls: {} -> {}", a, b)
    check(pa.view(np.ndarray).tobytes() == pa2.view(np.ndarray).tobytes(), "array prediction changed after phasepol/f0 calls")
    check(np.array_equal(fa.value, fa2.value), "f0 changed between calls")
    # a Time array is mutable: the same argument OBJECT edited in place between two calls must be looked up afresh
    if len(times) >= 2:
        w = tt.copy()
        with lib("predictor(time array), array edited in place, predictor(same array object)"):
            _ = pred(w)
            w[0] = times[-1]
            pw = pred(w)
            fw = pred.f0(w, 0)
        check_phase(pred_exact(pw)[0], Ts[-1], ents, "time array edited in place (element 0 := last time) and passed again")
        check(np.ravel(fw.value)[0] == np.ravel(pred.f0(times[-1], 0).value)[0], "f0 of a time array edited in place is stale")
        stt.label("argument_edited_in_place")
    # outside every span -> ValueError
    ivs = exp_iv
    outside = [ivs[0][0] - 5, ivs[-1][1] + 5] + [(a[1] + b[0]) / 2 for a, b in zip(ivs, ivs[1:]) if b[0] - a[1] > F(1, 100)]
    base = all_ents[0]
    for To in outside:
        t_out = getattr(base.tmid + float(To - base.T) * u.s, tscale)
        must_raise("time outside every span", lambda: pred(t_out), (ValueError,))
        must_raise("f0 outside every span", lambda: pred.f0(t_out), (ValueError,))
    mixed = Time([times[0].jd1, t_out.jd1], [times[0].jd2, t_out.jd2], format="jd", scale=tscale)
    must_raise("array with one time outside", lambda: pred(mixed), (ValueError,))
    if len(times) >= 2:
        w = tt.copy()
        _ = pred(w)
        w[0] = t_out
        must_raise("array edited in place to hold a time outside every span", lambda: pred(w), (ValueError,))
    far = any(abs(T - e.T) > e.half / 4 for T, e in zip(Ts, used))
    stt.nt(len(ents) >= 2 and far and (pc["ncoeff"] % 3 != 0 or any("D" in c or "d" in c for c in pc["entries"][0]["coeffs"])))
    stt.label("mode_" + pc["mode"])
    stt.label("ncoeff_%d" % pc["ncoeff"])
    stt.label("entries_%d" % len(ents))
    stt.label("arr_" + case["arr"])
    stt.label("subset_" + ("none" if sub is None else case["subset_via"] + ("_warm" if case.get("warm_parent") and case["subset_via"] == "table" else "")))
    stt.label("intervals_%d" % len(exp_iv))
    stt.label("via_" + pc["via"])


# -- time_at ----------------------------------------------------------------------------------------------


@st.composite
def timeat_case(draw):
    pc = draw(polyco(mode="model", extra=draw(st.sampled_from([0, 0, 1, 2]))))
    n = len(pc["entries"])
    # (u: position in the entry's span, -1/2 .. 1/2; also a hair inside either end of the span -- at the end of the table an iterate of the
    # root finder that oversteps has nowhere to go)
    uu = draw(st.one_of(st.floats(-0.45, 0.45), st.floats(-0.45, 0.45),
                        st.tuples(st.sampled_from([-1, 1]), st.sampled_from([1e-3, 1e-5, 1e-7, 1e-9, 0.0, 0.0])).map(lambda t: t[0] * (0.5 - t[1]))))
    return {"pc": pc, "j": draw(st.sampled_from([0, n - 1, draw(st.integers(0, n - 1))])), "u": uu, "guess": draw(st.sampled_from(["none", "tmid", "near", "other_entry", "other_entry"])), "j2": draw(st.integers(0, n - 1)),
            "u2": draw(st.floats(-0.45, 0.45))}


def run_timeat(case, stt):
    import pulsarbat as pb

    pc = case["pc"]
    ents = [Entry(pc, e) for e in pc["entries"]]
    # overlapping 'model' entries agree with each other; keep only texts whose spans do not overlap by more than 1 ms
    pred = load(pc)
    e = ents[case["j"]]
    T = e.T + F(case["u"]) * pc["span"] * 60
    phi = e.phase(T)
    ip = math.floor(phi + F(1, 2))
    target = pb.Phase(float(ip), float(phi - ip))
    tv = pred_exact(target)[0]
    kw = {}
    if case["guess"] == "tmid":
        kw["guess"] = e.tmid
    elif case["guess"] == "near":
        kw["guess"] = e.tmid + float(F(case["u"]) * pc["span"] * 60 * F(9, 10)) * u.s
    elif case["guess"] == "other_entry":
        # any time the table covers is a valid starting point, also one in another entry than the answer's
        e2 = ents[case.get("j2", 0)]
        kw["guess"] = e2.tmid + float(F(case.get("u2", 0.0)) * pc["span"] * 60) * u.s
        stt.label("guess_in_another_entry" if e2 is not e else "guess_in_same_entry")
    try:
        with lib("time_at"):
            t = pred.time_at(target, **kw)
    except Violation as ex:
        if case["guess"] == "other_entry" and "ValueError" in str(ex):
            # the iteration may step into a gap between spans from a far starting point: a refusal, not a wrong answer
            stt.label("far_guess_refused")
            return
        raise
    with lib("predictor(time_at(phase))"):
        back = pred(t)
    f0 = float(F(Decimal(pc["f0"])))
    tol = F(1, 10**8) + F(f0 * 40e-12) + F(1, 10**8)
    if "guess" in kw:
        # the answer is the guess plus a number of seconds held in one double: its resolution grows with the distance from the guess
        tol += abs(O.T(kw["guess"]) - T) * F(f0) * F(1, 2**52)
    d = abs(pred_exact(back)[0] - tv)
    if not pc.get("consistent", True) or pc.get("truncated"):
        # entries that disagree where they overlap: the time found on one of them may be predicted from the other
        tol += max([abs(a.phase(T) - b.phase(T)) for a in ents for b in ents if a.contains(T) and b.contains(T)] + [F(0)])
    check(d <= tol, "predictor(time_at(phase)) differs from the phase by {:.3g} cycles (tol {:.3g})", float(d), float(tol))
    dT = abs(O.T(t) - T) * F(f0)
    if pc.get("truncated"):
        stt.label("entries_disagree_outside_their_spans")  # (where two of them reach the phase, either time is an inverse: only the above is checked)
    check(pc.get("truncated") or dT <= 10 * tol, "time_at(phase) is {:.3g} cycles of rotation away from the time at which the formula gives that phase", float(dT))
    # phases outside every interval
    lo = min(x.phase(x.T - x.half) for x in ents) - 10
    hi = max(x.phase(x.T + x.half) for x in ents) + 10
    for v in (lo, hi):
        iv = math.floor(v)
        must_raise("time_at(phase outside every span)", lambda: pred.time_at(pb.Phase(float(iv), 0.25)), (ValueError,))
    stt.nt(len(ents) >= 2)
    stt.label("guess_" + case["guess"])
    stt.label("entries_%d" % len(ents))
    if abs(case["u"]) > 0.49:
        stt.label("near_span_end")


SUBS = [
    Sub("predict", predict_case(), run_predict,
        "generated tempo polyco texts (1..6 entries, NCOEFF in {2,3,4,5,7,12,13,15}, e/E/D/d exponents, signed coefficients, span 15..1440 min, "
        "F0 0.1..1000 Hz, RPHASE to 1e12, contiguous/overlapping/gapped spans incl. sub-ms gaps; StringIO or file; table/text subsets); scalar, "
        "1-d, 2-d and column arrays of times at span edges and inside; phase, f0 and derivatives, phasepol, intervals, refusals, repeatability, the same "
        "Time array object passed again after editing an element in place; "
        "non-trivial = >= 2 entries, a time farther than span/8 from TMID, and (NCOEFF % 3 != 0 or D exponents)",
        quick=1500, thorough=20000, pieces_quick=6),
    Sub("time_at", timeat_case(), run_timeat,
        "self-consistent texts (entries are Taylor expansions of one phase model): time_at(phase) with no guess / TMID / nearby guess / a guess anywhere in another entry inverts "
        "the prediction; phases outside raise; non-trivial = >= 2 entries", quick=500, thorough=8000, pieces_quick=4),
]

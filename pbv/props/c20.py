"""C20 -- pb.fft equals the reference DFT on both backends; STFT/ISTFT invert and label correctly."""

import math
from fractions import Fraction as F

import numpy as np
import astropy.units as u
from hypothesis import strategies as st

from ..core import Sub, EnumSub, check, lib, must_raise, Violation
from .. import oracle as O, gen as G
from ..contract import contract, assert_labels, assert_rate, same_start, bits_equal, rate_hz

NAMES = ["fft", "fft2", "fftn", "ifft", "ifft2", "ifftn", "rfft", "rfft2", "rfftn", "irfft", "irfft2", "irfftn", "hfft", "ihfft"]
ONE_D = {"fft", "ifft", "rfft", "irfft", "hfft", "ihfft"}
TWO_D = {"fft2", "ifft2", "rfft2", "irfft2"}
REAL_IN = {"rfft", "rfft2", "rfftn", "ihfft"}
DTYPES = ["f4", "f8", "c8", "c16", "i2", "i8", "u1", "b1", "f2", "ld", "cld"]  # (half precision is computed in single, extended stays extended)
EXHAUSTIVE = {"quick": False, "thorough": False}
ASSUMPTIONS = [
    "values are compared with numpy.fft.<same name> (an implementation independent of scipy.fft, which pb.fft wraps); shape and dtype with "
    "scipy.fft.<same name>, the reference the module documents itself as; tolerance 1e-4*scale for single, 1e-11*scale for double precision results",
    "STFT reference: per segment fftshift(numpy.fft.fft(x[kM:(k+1)M]))/M; sub-channel labels f_c + (j - M//2)*rate/M in exact rationals",
]


@st.composite
def fft_case(draw):
    name = draw(st.sampled_from(NAMES))
    rank = draw(st.integers(2 if name in TWO_D else 1, 3))
    shape = [draw(st.integers(1, 6)) for _ in range(rank)]
    big = draw(st.integers(0, 11)) == 0
    dtype = draw(st.sampled_from(DTYPES))
    if name in REAL_IN and dtype in ("c8", "c16", "cld"):
        dtype = draw(st.sampled_from(["f4", "f8", "i2"]))
    kw = {}
    if name in ONE_D:
        ax = draw(st.integers(-rank, rank - 1))
        if draw(st.booleans()):
            kw["axis"] = ax
        else:
            ax = -1
        axes = [ax]
        if draw(st.integers(0, 2)) == 0:
            kw["n"] = draw(st.integers(1, 9))
    else:
        k = 2 if name in TWO_D else draw(st.integers(1, rank))
        perm = draw(st.permutations(range(rank)))[:k]
        axes = [a - rank if draw(st.booleans()) else a for a in perm]
        omit = draw(st.integers(0, 2)) == 0
        if name in TWO_D and omit:
            axes = [-2, -1]
        elif name not in TWO_D and omit:
            # axes omitted: all axes, or -- when s is given -- the last len(s) axes
            if draw(st.booleans()):
                axes = list(range(-draw(st.integers(1, rank)), 0))
                kw["s"] = [draw(st.integers(1, 7)) for _ in axes]
            else:
                axes = list(range(rank))
        else:
            kw["axes"] = axes
        if "s" not in kw and draw(st.integers(0, 2)) == 0:
            kw["s"] = [draw(st.integers(1, 7)) for _ in axes]
    if big:
        # a long transformed axis (power of two, prime, 7-smooth, > 2^16 now and then); the other axes stay short
        shape[axes[-1] % rank] = draw(st.sampled_from([127, 128, 1000, 1021, 1024, 4096, 5003, 65537, 70000]))
        if "n" in kw:
            kw["n"] = draw(st.sampled_from([shape[axes[-1] % rank] - 1, shape[axes[-1] % rank] + 3, 1024]))
        if "s" in kw:
            kw["s"][-1] = draw(st.sampled_from([shape[axes[-1] % rank] - 1, shape[axes[-1] % rank] + 3, 512]))
    if "s" in kw and draw(st.integers(0, 3)) == 0:
        kw["s"] = [-1 if draw(st.booleans()) else v for v in kw["s"]]  # -1: "the whole input along that axis", as the reference documents
    if name not in ONE_D and name not in TWO_D and len(axes) == 1 and draw(st.integers(0, 2)) == 0:
        # one axis of an n-d transform given as a plain integer (the reference accepts that for `axes` and for `s`)
        if "axes" in kw:
            kw["axes"] = axes[0]
        if "s" in kw and draw(st.booleans()):
            kw["s"] = kw["s"][0]
    if name in ("irfft", "irfft2", "irfftn", "hfft") and "n" not in kw and "s" not in kw and shape[axes[-1] % rank] < 2:
        # default output length 2*(m-1) = 0: degenerate (the references disagree among themselves: irfft raises, irfft2 returns length 1)
        shape[axes[-1] % rank] = draw(st.integers(2, 6))
    if draw(st.booleans()):
        kw["norm"] = draw(st.sampled_from([None, "backward", "ortho", "forward", "ortho", "forward"]))
    # dask chunking off the transformed axes
    tr = set(a % rank for a in axes)
    chunks = [shape[i] if i in tr else draw(st.integers(1, shape[i])) for i in range(rank)]
    if big:
        for i in range(rank):
            if i not in tr:
                shape[i] = min(shape[i], 3)
                chunks[i] = min(chunks[i], shape[i])
    return {"name": name, "shape": shape, "dtype": dtype, "kw": kw, "axes": axes, "chunks": chunks, "seed": draw(st.integers(0, 2**31 - 1)),
            # how many of (n|s, axis|axes, norm) are passed positionally instead of by keyword
            "npos": draw(st.sampled_from([0, 0, 1, 2, 3, 3]))}


def mk_input(case):
    rng = np.random.default_rng(case["seed"])
    dt = G.DT[case["dtype"]]
    x = rng.standard_normal(case["shape"]) * 10
    if np.issubdtype(dt, np.complexfloating):
        x = x + 1j * rng.standard_normal(case["shape"]) * 10
    if dt == np.bool_:
        return x > 0
    if np.issubdtype(dt, np.integer):
        x = np.rint(np.clip(x, 0 if dt == np.uint8 else -100, 100))
    return x.astype(dt)


def positional(name, kw, k):
    """the same call with the first k optional parameters given positionally (scipy.fft order: n/s, axis/axes, norm): -> (args, kwargs)"""
    order = ["n", "axis", "norm"] if not (name.endswith("2") or name.endswith("n")) else ["s", "axes", "norm"]
    default = {"n": None, "axis": -1, "norm": None, "s": None, "axes": (-2, -1) if name.endswith("2") else None}
    k = min(k, max([i + 1 for i, p in enumerate(order) if p in kw] or [0]))
    args = [kw.get(p, default[p]) for p in order[:k]]
    return tuple(args), {p: v for p, v in kw.items() if p not in order[:k]}


def run_fft(case, stt):
    import pulsarbat as pb
    import scipy.fft
    import dask
    import dask.array as da

    name = case["name"]
    x = mk_input(case)
    kw = {k: (tuple(v) if isinstance(v, list) else v) for k, v in case["kw"].items()}
    pos_args, pos_kw = positional(name, kw, case.get("npos", 0))
    try:
        ref_s = getattr(scipy.fft, name)(x, **kw)
    except Exception as e:
        # the reference itself refuses these arguments: the wrapper must refuse as well
        try:
            getattr(pb.fft, name)(x, **kw)
        except Exception:
            stt.label("reference_refuses")
            return
        raise Violation(f"pb.fft.{name} accepts arguments scipy.fft.{name} refuses ({type(e).__name__})")
    with lib("pb.fft." + name):
        f = getattr(pb.fft, name)
        y = f(x, *pos_args, **pos_kw)
    check(isinstance(y, np.ndarray), "pb.fft.{} on a NumPy array returns {}", name, type(y).__name__)
    check(y.shape == ref_s.shape and y.dtype == ref_s.dtype, "pb.fft.{}: shape/dtype {} {} but the reference gives {} {}", name, y.shape, y.dtype,
          ref_s.shape, ref_s.dtype)
    nkw = dict(kw)
    single = y.dtype in (np.complex64, np.float32)
    try:
        ref_n = getattr(np.fft, name)(x.astype(np.complex128) if np.iscomplexobj(x) else x.astype(np.float64), **nkw)
    except Exception:
        ref_n = None  # numpy's own argument checking is stricter in a few degenerate cases (e.g. irfft2 of a (1,1) array)
        stt.label("numpy_reference_refuses")
    scale = max(float(np.max(np.abs(ref_s))) if ref_s.size else 0.0, 1e-30)
    tol = (1e-4 if single else 1e-11) * scale * (1 + math.log2(max(max(case["shape"]), 2)) / 4)
    if ref_n is not None:
        check(ref_n.shape == y.shape, "harness: numpy reference shape {} vs {}", ref_n.shape, y.shape)
        err = float(np.max(np.abs(y - ref_n))) if y.size else 0.0
        check(err <= tol, "pb.fft.{}({}) differs from numpy.fft.{} by {:.3g} (tol {:.3g})", name, kw, name, err, tol)
    # dask backend: lazy, same values/shape/dtype
    calls = {"n": 0}

    def produce():
        calls["n"] += 1
        return x

    dx = da.from_delayed(dask.delayed(produce, pure=False)(), shape=x.shape, dtype=x.dtype).rechunk(tuple(case["chunks"]))
    # sequence arguments are handed over as the caller's own LIST objects, and looked at again afterwards: a call may not edit them (the next
    # call with the same list on another array would silently get other lengths)
    own = {k_: list(v) for k_, v in pos_kw.items() if isinstance(v, tuple)}
    with lib("pb.fft.%s on a Dask array" % name):
        yd = f(dx, *pos_args, **{**pos_kw, **own})
    for k_, v in own.items():
        check(v == list(pos_kw[k_]), "pb.fft.{} on a Dask array rewrote the caller's list {}= {} -> {}", name, k_, list(pos_kw[k_]), v)
    if own:
        stt.label("list_arguments_checked")
    check(isinstance(yd, da.Array), "pb.fft.{} on a Dask array returns {}", name, type(yd).__name__)
    check(calls["n"] == 0, "pb.fft.{} computed its Dask input while building the result", name)
    check(yd.shape == y.shape, "Dask result shape {} != NumPy result shape {}", yd.shape, y.shape)
    check(yd.dtype == y.dtype, "Dask result declares dtype {}, NumPy backend gives {} (input {})", yd.dtype, y.dtype, x.dtype)
    got = yd.compute(scheduler="synchronous")
    check(calls["n"] >= 1, "harness: sentinel not computed")
    check(got.dtype == y.dtype and got.shape == y.shape, "computed Dask result {} {} != NumPy result {} {}", got.dtype, got.shape, y.dtype, y.shape)
    e2 = float(np.max(np.abs(got - y))) if y.size else 0.0
    # the same transform on a differently aligned / strided block: rounding-level differences only
    check(e2 <= 64 * (6e-8 if single else 1.2e-16) * scale, "Dask and NumPy backends differ by {:.3g} (scale {:.3g})", e2, scale)
    # chunked along a transformed axis -> refused
    rank = x.ndim
    ta = case["axes"][0] % rank
    if x.shape[ta] >= 2:
        bad = da.from_array(x, chunks=tuple(1 if i == ta else x.shape[i] for i in range(rank)))
        must_raise("pb.fft.%s on an array chunked along the transformed axis" % name, lambda: f(bad, **kw).compute(scheduler="synchronous"), (ValueError,))
    nt = any(a % rank != rank - 1 for a in case["axes"]) or "n" in kw or "s" in kw or kw.get("norm") not in (None, "backward")
    stt.nt(nt)
    stt.label("name_" + name)
    stt.label("positional_args_%d" % len(pos_args))
    stt.label("dtype_" + case["dtype"])
    stt.label("rank_%d" % rank)
    stt.label("long_axis" if max(case["shape"]) > 100 else "short_axes")
    if isinstance(kw.get("s"), tuple) and -1 in kw["s"]:
        stt.label("s_keeps_a_length")
    if isinstance(kw.get("s"), int) or isinstance(kw.get("axes"), int):
        stt.label("scalar_s_or_axes")


def enum_names(tier, piece, npieces, stt, seed):
    import pulsarbat as pb
    import scipy.fft

    if piece:
        return
    check(sorted(dir(pb.fft)) == sorted(NAMES), "dir(pb.fft) = {}", dir(pb.fft))
    for n in NAMES:
        f = getattr(pb.fft, n)
        check(callable(f) and f.__name__ == getattr(scipy.fft, n).__name__, "pb.fft.{} is not the same-named transform", n)
    bad = ["dct", "fftfreq", "fftshift", "next_fast_len", "fft3", "FFT", "ifftt", "rfft3", "hfft2", "ihfft2", "hfftn", "ihfftn", "_fft", ""]
    for n in bad:
        stt._cur = {"name": n}
        try:
            getattr(pb.fft, n)
        except AttributeError:
            continue
        stt.failure = ({"name": n}, f"pb.fft.{n} does not raise AttributeError")
        raise Violation(stt.failure[1])
    stt.bulk(len(NAMES) + len(bad), len(bad), samples=[{"name": "dct"}, {"name": "hfft2"}])


def replay_name(case, stt):
    import pulsarbat as pb

    try:
        getattr(pb.fft, case["name"])
    except AttributeError:
        return
    raise Violation(f"pb.fft.{case['name']} does not raise AttributeError")


# -- STFT / ISTFT -----------------------------------------------------------------------------------------------


@st.composite
def stft_case(draw):
    spec = draw(G.signal_spec(classes=G.BASEBAND, nmin=1, nmax=48, nchan_max=4, max_trailing=1, data_kinds=("noise",), sr=G.freq_q(0, 9)))
    if draw(st.integers(0, 19)) == 0:
        spec["n"] = draw(st.sampled_from([1000, 4096, 5003, 70001]))
        spec["sshape"] = spec["sshape"][:1] + ([2] if spec["cls"] == "DualPolarizationSignal" else [])
        spec["sshape"][0] = min(spec["sshape"][0], 2)
    N = spec["n"]
    M = draw(st.one_of(st.integers(1, N), st.sampled_from([1, 2, 3, N, max(1, N // 2)])))
    M = min(M, N)
    if N > 100:
        M = min(N, draw(st.sampled_from([1, 2, 7, 16, 64, 250])))  # long signals: few sub-channels (the label model is exact rationals)
    return {"sig": spec, "M": M, "tone_c": draw(st.integers(0, spec["sshape"][0] - 1)), "tone_b": draw(st.integers(-(M // 2), (M - 1) // 2)),
            "data": draw(st.sampled_from(["noise", "tone"]))}


@st.composite
def stft_huge_case(draw):
    """signals beyond 2^22 elements (any batching / blocking inside the transforms would show here), segment counts with awkward remainders"""
    spec = draw(G.signal_spec(classes=["BasebandSignal"], nmin=1, nmax=1, nchan_max=2, max_trailing=0, dtypes=["c8"], data_kinds=("noise",),
                              sr=G.freq_q(3, 9), start="some"))
    spec["n"] = draw(st.sampled_from([2**21 + 64, 2**22 + 192, 3000017, 2**21, 2**22 + 1, 4500000]))
    spec["sshape"] = [draw(st.sampled_from([1, 2, 2]))]
    spec["data"] = {"kind": "noise", "seed": draw(st.integers(0, 1000))}
    M = draw(st.sampled_from([64, 1000, 4096, 7, 250, 64, 1000, 4096, 2**18, 2**20, 2**20]))
    if M >= 2**18:
        spec["dtype"] = "c16"  # very long segments in double precision: an error growing with the segment length shows here
    return {"sig": spec, "M": M, "tone_c": 0, "tone_b": 0, "data": "noise"}


def run_stft(case, stt):
    import pulsarbat as pb

    spec = case["sig"]
    M, N = case["M"], spec["n"]
    nchan = spec["sshape"][0]
    x = G.mk_data(spec)
    if case["data"] == "tone":
        n = np.arange(N).reshape((N,) + (1,) * (x.ndim - 1))
        tone = np.exp(2j * np.pi * ((case["tone_b"] * n) % M) / M)
        x = np.zeros_like(x)
        x[:, case["tone_c"]] = np.broadcast_to(tone, x[:, case["tone_c"] : case["tone_c"] + 1].shape)[:, 0] if x.ndim > 2 else tone.reshape(N)
    z = G.build(spec, data=x.copy())
    with lib("stft"):
        s = pb.contrib.stft(z, nperseg=M)
    contract(s, "stft")
    K = N // M
    check(type(s) is type(z), "stft type {}", type(s).__name__)
    check(s.shape == (K, nchan * M) + x.shape[2:], "stft shape {} for input {} and nperseg {}", s.shape, x.shape, M)
    rate = O.fq(spec["sr"])
    assert_rate(s, rate / M, 1, "stft: ")
    same_start(s, z, "stft: ")
    labels = G.exact_labels(spec)
    if nchan * M <= 20000:
        exp = [f + (F(j) - M // 2) * rate / M for f in labels for j in range(M)]
        assert_labels(s, exp, 2, "stft sub-channel labels: ")
    else:
        # very many sub-channels: their number, and the exact label of every (nchan*M/257)-th one plus the edges of every channel
        got = np.asarray(s.channel_freqs.to_value(u.Hz), dtype=np.float64)
        check(got.shape == (nchan * M,), "stft: {} sub-channel labels for {} sub-channels", got.shape, nchan * M)
        pick = sorted(set(list(range(0, nchan * M, max(1, nchan * M // 257))) + [c * M + j for c in range(nchan) for j in (0, 1, M // 2, M - 1)]))
        scale = max(abs(labels[0]), abs(labels[-1])) + rate * nchan
        for idx in pick:
            e = labels[idx // M] + (F(idx % M) - M // 2) * rate / M
            check(abs(F(float(got[idx])) - e) <= scale * F(2.220446049250313e-16) * 12, "stft sub-channel {} labelled {!r} Hz, expected {!r} Hz", idx,
                  float(got[idx]), float(e))
    # data: per segment DFT, fftshifted, /M
    seg = x[: K * M].reshape((K, M) + x.shape[1:])
    ref = np.fft.fftshift(np.fft.fft(seg.astype(np.complex128), axis=1), axes=1) / M  # (K, M, nchan, ...)
    ref = np.moveaxis(ref, 1, 2).reshape((K, nchan * M) + x.shape[2:])
    single = x.dtype == np.complex64
    scale = max(float(np.max(np.abs(x))), 1e-30)
    tol = (1e-5 if single else 1e-12) * scale * (1 + math.log2(max(M, 2)))
    # the transform's rounding error is relative to the spectrum it produces (for noise that is ~ scale / sqrt(M))
    tol_spec = (1e-5 if single else 1e-12) * (1 + math.log2(max(M, 2))) * (float(np.max(np.abs(ref))) if ref.size else 0.0)
    err = float(np.max(np.abs(np.asarray(s.data) - ref))) if ref.size else 0.0
    check(err <= tol_spec, "stft data differ from the per-segment DFT by {:.3g} (tol {:.3g})", err, tol_spec)
    if case["data"] == "tone" and K > 0:
        j = case["tone_c"] * M + case["tone_b"] + M // 2
        mag = np.abs(np.asarray(s.data))
        pk = mag[(0, slice(None)) + (0,) * (mag.ndim - 2)]
        check(int(np.argmax(pk)) == j and abs(pk[j] - 1) <= 1e-4, "a tone in channel {} at bin {} shows up in sub-channel {} (expected {})", case["tone_c"],
              case["tone_b"], int(np.argmax(pk)), j)
    with lib("istft"):
        w = pb.contrib.istft(s, nperseg=M)
    contract(w, "istft")
    check(type(w) is type(z) and w.shape == (K * M,) + x.shape[1:], "istft shape {} (expected {})", w.shape, (K * M,) + x.shape[1:])
    assert_rate(w, rate, 2, "istft: ")
    same_start(w, z, "istft: ")
    assert_labels(w, labels, 4, "istft(stft(z)) labels: ")
    e2 = float(np.max(np.abs(np.asarray(w.data) - x[: K * M]))) if K else 0.0
    check(e2 <= 2 * tol, "istft(stft(z)) differs from z by {:.3g} (tol {:.3g})", e2, 2 * tol)
    stt.nt((nchan >= 2 and nchan % 2 == 0 and spec["align"] != "center") or N * nchan > 2**22)
    if N * nchan > 2**22:
        stt.label("beyond_2^22_elements")
    stt.label("align_" + (spec["align"] if nchan % 2 == 0 else "center(odd)"))
    stt.label("M_odd" if M % 2 else "M_even")
    stt.label("M==N" if M == N else "M<N")
    stt.label("data_" + case["data"])


def run_stft_err(spec, stt):
    import pulsarbat as pb

    z = G.build(spec)
    must_raise("stft of a non-baseband signal", lambda: pb.contrib.stft(z, nperseg=2), (ValueError, TypeError))
    must_raise("istft of a non-baseband signal", lambda: pb.contrib.istft(z, nperseg=2), (ValueError, TypeError))
    stt.nt()


SUBS = [
    Sub("transforms", fft_case(), run_fft,
        "the 14 names x rank 1..3 shapes x dtypes f4/f8/c8/c16/i2/i8/u1/bool/f2/longdouble/clongdouble x axis/axes (negative, permuted) x n/s shorter/longer x norm; NumPy "
        "and Dask (chunked off the transformed axes; chunked on them must raise; lazy via a counting sentinel); non-trivial = an axis other than "
        "the last, or n/s given, or a non-default norm", quick=3000, thorough=60000, pieces_quick=6),
    EnumSub("names", enum_names, replay_name, "dir(pb.fft) is exactly the 14 names, each callable and same-named; 14 other names raise "
            "AttributeError; non-trivial = the refused names", pieces_quick=1, pieces_thorough=1),
    Sub("stft_istft", stft_case(), run_stft,
        "baseband classes, nchan 1..4, all alignments, nperseg 1..len (odd, even, == len), trailing dim, noise or a tone at a known bin of a "
        "drawn channel: shape, rate/nperseg, start, exact sub-channel labels, per-segment DFT data, tone lands in the labelled sub-channel, "
        "istft restores data/rate/start/labels; non-trivial = even nchan >= 2 with 'bottom'/'top'", quick=2000, thorough=40000, pieces_quick=4),
    Sub("stft_huge_signals", stft_huge_case(), run_stft,
        "the same checks on NumPy signals of 2^21 .. 4.5e6 samples x 1-2 channels (beyond 2^22 elements), nperseg 7..4096; every case non-trivial "
        "by size", quick=10, thorough=60, pieces_quick=2, pieces_thorough=8, budget_quick=150),
    Sub("stft_refusals", G.signal_spec(classes=["Signal", "RadioSignal", "IntensitySignal"], nmin=4, nmax=8, nchan_max=2, max_trailing=0), run_stft_err,
        "non-baseband input is refused", quick=30, thorough=300, pieces_quick=1),
]

"""C16 -- every signal object satisfies its class contract; copies reproduce it faithfully."""

import pickle
from fractions import Fraction as F

import numpy as np
import astropy.units as u
from astropy.time import Time
from hypothesis import strategies as st

from ..core import Sub, check, lib, must_raise, Violation
from .. import oracle as O, gen as G
from ..contract import contract, MIN_NDIM, FIXED_AXIS, REQ_DTYPES, bits_equal

ASSUMPTIONS = [
    "model of the documented contract: accepted iff ndim >= class minimum, fixed axes have their length, sample shape non-empty, dtype in the "
    "class set or safely castable to its first member, sample_rate/chan_bw positive scalar frequency Quantities, center_freq scalar frequency "
    "Quantity, start_time None or a scalar Time, alignment / polarisation type from their sets, meta dict-or-None",
    "invalid values are drawn one clause at a time (or none); NaN/inf rates and frequencies are not drawn except NaN sample_rate (must be refused)",
]

ALL_DT = ["f2", "f4", "f8", "c8", "c16", "i2", "i4", "i8", "u1", "b1", "g16", "G32", ">f4", ">f8", ">c8", ">c16", ">i2"]
NPDT = dict(G.DT, g16=np.longdouble, G32=np.clongdouble, **{k: np.dtype(k) for k in (">f4", ">f8", ">c8", ">c16", ">i2")})  # (byte-swapped: not native)


def dtype_model(cls, dt):
    """-> resulting dtype or None if refused"""
    req = REQ_DTYPES[cls]
    dt = np.dtype(dt)
    if req is None:
        return dt
    if dt in [np.dtype(r) for r in req]:
        return dt
    if np.can_cast(dt, req[0], "safe"):
        return np.dtype(req[0])
    return None


BAD = {
    "sample_rate": ["plain_number", "wrong_unit", "array", "array1", "zero", "negative", "nan", "none", "complex"],
    "start_time": ["float_mjd", "array_time", "junk_string", "quantity", "array_time_isot9", "array1_time_isot9"],
    "center_freq": ["plain_number", "wrong_unit", "array", "array1", "none"],
    "chan_bw": ["plain_number", "wrong_unit", "array", "array1", "array11", "zero", "negative", "none", "complex"],
    "freq_align": ["middle", "none", "number", "upper", "nparray0", "nparray1", "list"],
    "pol_type": ["elliptical", "none", "number", "Linear", "nparray0", "nparray1"],
    "meta": ["number", "string", "list_of_scalars"],
}


def bad_value(arg, kind):
    if arg in ("sample_rate", "center_freq", "chan_bw"):
        return {"plain_number": 5.0, "wrong_unit": 5.0 * u.s, "array": np.array([1.0, 2.0]) * u.Hz, "zero": 0.0 * u.Hz, "negative": -3.0 * u.kHz,
                "array1": np.array([2.5]) * u.kHz, "array11": np.array([[1.0]]) * u.MHz,  # one element is still not a scalar
                "nan": float("nan") * u.Hz, "none": None,
                "complex": (3 + 2j) * u.kHz}[kind]  # "positive" says nothing about a number with an imaginary part (NumPy would order it by its real part)
    if arg == "start_time":
        return {"float_mjd": 59867.2442234, "array_time": Time([58000.0, 58001.0], format="mjd"), "junk_string": "not a time", "quantity": 5 * u.s,
                # (array-valued Times already in the form the setter normalises to)
                "array_time_isot9": Time(["2020-01-01T00:00:00", "2020-01-01T00:00:01"], format="isot", precision=9),
                "array1_time_isot9": Time(["2020-01-01T00:00:00"], format="isot", precision=9)}[kind]
    if arg == "freq_align":
        return {"middle": "middle", "none": None, "number": 1, "upper": "TOP", "nparray0": np.array("bottom"), "nparray1": np.array(["top"]),
                "list": ["top"]}[kind]
    if arg == "pol_type":
        return {"elliptical": "elliptical", "none": None, "number": 0, "Linear": "Linear", "nparray0": np.array("circular"),
                "nparray1": np.array(["linear"])}[kind]
    return {"number": 5, "string": "abc", "list_of_scalars": [1, 2, 3]}[kind]


def class_args(cls):
    a = ["sample_rate", "start_time", "meta"]
    if cls != "Signal":
        a += ["center_freq", "freq_align"]
        if cls not in G.BASEBAND:
            a += ["chan_bw"]
    if cls == "DualPolarizationSignal":
        a += ["pol_type"]
    return a


@st.composite
def ctor_case(draw):
    cls = draw(st.sampled_from(G.CLASSES))
    spec = draw(G.signal_spec(classes=[cls], nmin=0, nmax=6, nchan_max=4, max_trailing=2))
    shape_mode = draw(st.sampled_from(["valid"] * 4 + ["too_few_dims", "wrong_fixed_axis", "empty_sample", "scalar0d"]))
    shape = [spec["n"]] + spec["sshape"]
    if shape_mode == "too_few_dims":
        if MIN_NDIM[cls] <= 1:
            shape_mode = "scalar0d"
        else:
            shape = shape[: MIN_NDIM[cls] - 1]
    if shape_mode == "wrong_fixed_axis":
        if cls in FIXED_AXIS:
            ax, ln = FIXED_AXIS[cls]
            shape[ax] = draw(st.sampled_from([v for v in (1, 2, 3, 4, 5) if v != ln]))
        else:
            shape_mode = "valid"
    if shape_mode == "empty_sample":
        if len(shape) < 2:
            shape = shape + [0]
        else:
            free = [i for i in range(1, len(shape)) if not (cls in FIXED_AXIS and FIXED_AXIS[cls][0] == i)]
            shape[draw(st.sampled_from(free))] = 0
    if shape_mode == "scalar0d":
        shape = []
    dtype = draw(st.sampled_from(ALL_DT))
    arg = draw(st.sampled_from(["none"] * 3 + class_args(cls)))
    kind = draw(st.sampled_from(BAD[arg])) if arg != "none" else None
    return {"sig": spec, "shape": shape, "shape_mode": shape_mode, "dtype": dtype, "bad_arg": arg, "bad_kind": kind,
            "dask": draw(st.booleans()), "start_form": draw(st.sampled_from(["time", "time", "iso_string", "tai"]))}


def run_ctor(case, stt):
    import pulsarbat as pb
    import dask.array as da

    spec = case["sig"]
    cls = spec["cls"]
    C = getattr(pb, cls)
    dt = NPDT[case["dtype"]]
    x = np.zeros(case["shape"], dtype=dt)
    if x.size:
        x.flat[:] = (np.arange(x.size) % 5).astype(dt)
    arr = da.from_array(x, chunks=tuple(max(1, s) for s in x.shape)) if case["dask"] and x.ndim else x
    kw = G.sig_kwargs(spec)
    if kw["start_time"] is not None:
        if case["start_form"] == "iso_string" and spec["t0"].get("scale", "utc") == "utc":  # (a bare ISO string carries no scale)
            kw["start_time"] = Time(kw["start_time"], format="isot", precision=9).isot
        elif case["start_form"] == "tai":
            kw["start_time"] = kw["start_time"].tai
    if case["bad_arg"] != "none":
        kw[case["bad_arg"]] = bad_value(case["bad_arg"], case["bad_kind"])
    res_dt = dtype_model(cls, dt)
    invalid = []
    if case["shape_mode"] != "valid":
        invalid.append("shape:" + case["shape_mode"])
    if res_dt is None:
        invalid.append("dtype")
    if case["bad_arg"] != "none":
        invalid.append(case["bad_arg"] + ":" + case["bad_kind"])
    what = "%s(%s %s%s, %s)" % (cls, case["dtype"], case["shape"], " dask" if case["dask"] else "", invalid or "all valid")
    if invalid:
        try:
            obj = C(arr, **kw)
        except ValueError:
            obj = None
        except Exception as e:
            raise Violation(f"{what}: expected ValueError, got {type(e).__name__}: {e}")
        check(obj is None, "{}: an object was created although the contract is violated", what)
    else:
        with lib(what):
            z = C(arr, **kw)
        contract(z, what)
        check(z.data.dtype == res_dt, "{}: dtype became {}, contract says {}", what, z.data.dtype, res_dt)
        check(z.shape == tuple(case["shape"]), "{}: shape {}", what, z.shape)
        check(isinstance(z.data, da.Array) == bool(case["dask"] and x.ndim), "{}: container {}", what, type(z.data).__name__)
        check(O.hz(z.sample_rate) == O.fq(spec["sr"]), "{}: sample_rate {}", what, z.sample_rate)
        if spec["t0"] is None:
            check(z.start_time is None, "{}: start_time appeared", what)
        else:
            ttol = F(1, 10**9) if (case["start_form"] == "iso_string" and spec["t0"].get("scale", "utc") == "utc") else O.time_tol(0)  # 9 decimals
            check(abs(O.T(z.start_time) - O.T(G.mk_time(spec["t0"]))) <= ttol, "{}: start_time {}", what, z.start_time)
            given = kw["start_time"]
            if isinstance(given, Time):
                # the Time is taken over with what belongs to it: its scale and (if any) the observatory location
                check(z.start_time.scale == given.scale, "{}: start_time scale {} -> {}", what, given.scale, z.start_time.scale)
                gl, zl = given.location, z.start_time.location
                check((gl is None) == (zl is None) and (gl is None or all(abs((a - b).to_value(u.m)) < 1e-6 for a, b in zip(gl.to_geocentric(),
                      zl.to_geocentric()))), "{}: the location attached to the given start time is not on the signal's start_time ({} -> {})", what, gl, zl)
        if cls != "Signal":
            nchan = z.shape[1]
            check(z.freq_align == ("center" if nchan % 2 else spec["align"]), "{}: freq_align {}", what, z.freq_align)
            check(O.hz(z.center_freq) == O.fq(spec["cf"]), "{}: center_freq", what)
            if cls in G.BASEBAND:
                check(O.hz(z.chan_bw) == O.hz(z.sample_rate), "{}: baseband chan_bw != sample_rate", what)
            else:
                check(O.hz(z.chan_bw) == O.fq(spec["bw"]), "{}: chan_bw", what)
        if cls == "DualPolarizationSignal":
            check(z.pol_type == spec["pol"], "{}: pol_type", what)
        check(z.meta == (None if spec.get("meta") is None else dict(spec["meta"])), "{}: meta {}", what, z.meta)
        if spec.get("meta"):
            check(z.meta is not spec["meta"], "{}: meta dict is shared with the caller's", what)
    stt.nt(len(invalid) == 1 or (not invalid and res_dt != np.dtype(dt)))
    stt.label(cls)
    stt.label("invalid_%d" % len(invalid))
    for i in invalid:
        stt.label("bad_" + i.split(":")[0])
    stt.label("dask" if case["dask"] else "numpy")
    if not invalid and res_dt != np.dtype(dt):
        stt.label("cast")


# -- assignment after construction -----------------------------------------------------------------------------


@st.composite
def assign_case(draw):
    spec = draw(G.signal_spec(nmin=1, nmax=5, nchan_max=4, max_trailing=1))
    arg = draw(st.sampled_from(class_args(spec["cls"])))
    good = draw(st.booleans())
    return {"sig": spec, "arg": arg, "kind": None if good else draw(st.sampled_from(BAD[arg])), "new": draw(G.freq_q()),
            "align": draw(st.sampled_from(["bottom", "center", "top"])), "pol": draw(st.sampled_from(["linear", "circular"])), "t": draw(G.time0())}


def attrs(z):
    import pulsarbat as pb

    t = z.start_time
    loc = None if t is None or t.location is None else tuple(float(v) for v in t.location.to_geocentric()[0:3] for v in [v.to_value(u.m)])
    out = {"sample_rate": z.sample_rate, "start_time": None if t is None else (t.jd1, t.jd2, t.scale, loc), "meta": z.meta}
    if isinstance(z, pb.RadioSignal):
        out.update(center_freq=z.center_freq, chan_bw=z.chan_bw, freq_align=z.freq_align)
    if isinstance(z, pb.DualPolarizationSignal):
        out["pol_type"] = z.pol_type
    return out


def same_attrs(a, b):
    if a.keys() != b.keys():
        return False
    for k in a:
        x, y = a[k], b[k]
        if isinstance(x, u.Quantity):
            if not (isinstance(y, u.Quantity) and x.unit == y.unit and x.value == y.value):
                return False
        elif x != y:
            return False
    return True


def run_assign(case, stt):
    spec = case["sig"]
    z = G.build(spec)
    arg = case["arg"]
    before = attrs(z)
    data0 = z.data.copy()
    if case["kind"] is not None:
        v = bad_value(arg, case["kind"])
        must_raise("assigning %s = %r" % (arg, case["kind"]), lambda: setattr(z, arg, v), (ValueError,))
        check(same_attrs(attrs(z), before), "a refused assignment of {} changed the object: {} -> {}", arg, before, attrs(z))
    else:
        if arg in ("sample_rate", "chan_bw"):
            if spec["cls"] in G.BASEBAND:
                stt.label("skip_baseband_rate_assignment")
                return
            v = O.q(case["new"])
        elif arg == "center_freq":
            v = O.q(case["new"])
        elif arg == "start_time":
            v = G.mk_time(case["t"])
        elif arg == "meta":
            v = {"k": 1}
        elif arg == "freq_align":
            v = case["align"]
        else:
            v = case["pol"]
        with lib("assigning a valid " + arg):
            setattr(z, arg, v)
        contract(z, "after assigning " + arg)
        if arg == "freq_align":
            check(z.freq_align == ("center" if z.shape[1] % 2 else v), "freq_align assignment gave {}", z.freq_align)
    check(bits_equal(z.data, data0), "attribute assignment changed the data")
    stt.nt()
    stt.label(arg + ("_bad" if case["kind"] else "_good"))


# -- copies: like(), pickle, Dask container helpers ------------------------------------------------------------------


@st.composite
def copy_case(draw):
    spec = draw(G.signal_spec(nmin=0, nmax=6, nchan_max=4, max_trailing=1))
    return {"sig": spec, "how": draw(st.sampled_from(["like", "like_data", "pickle", "compute", "persist", "to_dask_array", "rechunk", "rechunk_arg",
                                                      "dask_pickle", "dask_compute", "like_other_class", "copy", "deepcopy", "dask_deepcopy", "opaque_meta"])),
            # history: after the first copy one attribute of the ORIGINAL is re-assigned and the copy is taken again
            "again": draw(st.sampled_from([None, "pol_type", "center_freq", "start_time", "freq_align", "meta", "sample_rate"])), "t": draw(G.time0())}


def run_copy(case, stt):
    import pulsarbat as pb
    import dask.array as da

    spec = case["sig"]
    z = G.build(spec)
    how = case["how"]
    want_dask = None
    if how == "opaque_meta":
        # meta is any dict: its values may be objects that compare by identity and cannot be duplicated (a lock, a handle, a user object).  The
        # dict is accepted, and like() / slices / in-process helpers carry it unchanged (== on such values means "the same object")
        import threading

        vals = {"lock": threading.Lock(), "handle": object(), "gen": (i for i in range(3)), "n": 1}
        with lib("assigning a dict with opaque values as meta"):
            z.meta = dict(vals)
        for w, f in (("like", lambda: type(z).like(z)), ("time slice", lambda: z[:1]), ("compute", lambda: z.compute()), ("to_dask_array", lambda: z.to_dask_array()),
                     ("like(data)", lambda: type(z).like(z, z.data.copy()))):
            with lib(w + " of a signal whose meta holds opaque values"):
                y = f()
            check(y.meta == vals and all(y.meta[k] is v for k, v in vals.items()), "{}: meta values are not the attached objects: {} vs {}", w, y.meta, vals)
        check(z.meta == vals, "the signal's own meta changed: {}", z.meta)
        stt.nt()
        stt.label(how)
        return
    with lib(how):
        if how == "like":
            y = type(z).like(z)
        elif how == "like_data":
            y = type(z).like(z, z.data.copy())
        elif how == "pickle":
            y = pickle.loads(pickle.dumps(z))
        elif how == "copy":
            import copy as _copy

            y = _copy.copy(z)
        elif how == "deepcopy":
            import copy as _copy

            y = _copy.deepcopy(z)
        elif how == "dask_deepcopy":
            import copy as _copy

            y, want_dask = _copy.deepcopy(z.to_dask_array()), True
        elif how == "compute":
            y, want_dask = z.compute(), False
        elif how == "persist":
            y, want_dask = z.persist(), False
        elif how == "to_dask_array":
            y, want_dask = z.to_dask_array(), True
        elif how == "rechunk":
            y, want_dask = z.rechunk(), True
        elif how == "rechunk_arg":
            y, want_dask = z.rechunk((1,) * z.ndim if len(z) else (-1,) * z.ndim), True
        elif how == "dask_pickle":
            y, want_dask = pickle.loads(pickle.dumps(z.to_dask_array())), True
        elif how == "dask_compute":
            zz = z.to_dask_array()
            y, want_dask = zz.persist().compute(), False
        else:
            # like() across classes: a subclass-to-base copy keeps the shared attributes
            base = {"DualPolarizationSignal": "BasebandSignal", "BasebandSignal": "RadioSignal", "FullStokesSignal": "IntensitySignal",
                    "IntensitySignal": "RadioSignal", "RadioSignal": "Signal", "Signal": "Signal"}[spec["cls"]]
            y = getattr(pb, base).like(z)
            contract(y, how)
            check(type(y).__name__ == base, "like() class {}", type(y).__name__)
            a, b = attrs(y), attrs(z)
            check(all(same_attrs({k: a[k]}, {k: b[k]}) for k in a), "{}.like(obj) changed a shared attribute: {} vs {}", base, a, b)
            if base != spec["cls"]:
                # ... and back up: the subclass needs what the base object does not have -- given, it is taken; missing, like() refuses
                extra = {k: getattr(z, k) for k in attrs(z) if k not in attrs(y) and k not in ("start_time", "meta")}
                if extra:
                    w = type(z).like(y, **extra)
                    contract(w, how + " (base object to subclass)")
                    check(type(w) is type(z) and same_attrs(attrs(w), attrs(z)), "{}.like(base object, {}) does not carry the given and the inherited "
                          "attributes: {} vs {}", spec["cls"], sorted(extra), attrs(w), attrs(z))
                    for k in sorted(extra):
                        if k == "freq_align" or k == "pol_type" or spec.get("sub") == "ctor":
                            continue  # (these have defaults in the constructors; a user constructor with defaults of its own has them for all)
                        must_raise("%s.like(base object) without the required %s" % (spec["cls"], k),
                                   lambda: type(z).like(y, **{a2: v for a2, v in extra.items() if a2 != k}), (ValueError, TypeError))
            stt.nt()
            stt.label(how)
            return
    contract(y, how)
    check(type(y) is type(z), "{}: type {} -> {}", how, type(z).__name__, type(y).__name__)
    check(same_attrs(attrs(y), attrs(z)), "{}: attributes differ: {} vs {}", how, attrs(y), attrs(z))
    if want_dask is not None:
        check(isinstance(y.data, da.Array) == want_dask, "{}: container is {}", how, type(y.data).__name__)
    yd = y.data.compute(scheduler="synchronous") if isinstance(y.data, da.Array) else y.data
    check(bits_equal(np.asarray(yd), np.asarray(z.data)), "{}: data differ", how)
    stt.nt()
    stt.label(how)
    stt.label(spec["cls"])
    ag = case.get("again")
    if ag and not case.get("_second"):
        with lib("assigning " + ag):
            if ag == "pol_type" and isinstance(z, pb.DualPolarizationSignal):
                z.pol_type = "circular" if z.pol_type == "linear" else "linear"
            elif ag == "center_freq" and isinstance(z, pb.RadioSignal):
                z.center_freq = z.center_freq * 1.5 + z.chan_bw
            elif ag == "freq_align" and isinstance(z, pb.RadioSignal):
                z.freq_align = "top" if z.freq_align != "top" else "bottom"
            elif ag == "start_time":
                z.start_time = G.mk_time(case["t"])
            elif ag == "meta":
                z.meta = {"assigned": [1, 2]}
            elif ag == "sample_rate" and not isinstance(z, pb.BasebandSignal):
                z.sample_rate = z.sample_rate * 3
            else:
                return
        G.pin(z)
        try:
            run_copy(dict(case, _second=True), stt)  # the same copy of the same object again: must show the current attributes
        finally:
            G.unpin()
        stt.label("copy_assign_copy_" + ag)


# -- objects produced by library operations ---------------------------------------------------------------------


@st.composite
def ops_case(draw):
    spec = draw(G.signal_spec(nmin=2, nmax=12, nchan_max=4, max_trailing=2, dtypes=["f4", "f8", "c8", "c16"]))
    nd = 1 + len(spec["sshape"])
    op = draw(st.sampled_from(["tslice", "tfslice", "index3", "index3", "ufunc", "like_kw", "stokes", "to_intensity", "fast_len", "tshift"]))
    ix = []
    for d in ([spec["n"]] + spec["sshape"])[2:]:
        ix.append(draw(st.sampled_from(["int", "slice", "slice1", "list", "mask_some", "mask_none", "empty", "full"])))
    return {"sig": spec, "op": op, "t": draw(G.slices(spec["n"])), "ix": ix, "seed": draw(st.integers(0, 1000)),
            "uf": draw(st.sampled_from(["abs", "negative", "real", "square", "conj", "add1", "mulc", "isfinite", "sqrt", "angle"]))}


def mk_index(kind, d, seed):
    if kind == "int":
        return seed % d
    if kind == "slice":
        return slice(seed % d, None)
    if kind == "slice1":
        return slice(0, 1)
    if kind == "list":
        return [seed % d]
    if kind == "mask_some":
        m = np.zeros(d, bool)
        m[seed % d] = True
        return m
    if kind == "mask_none":
        return np.zeros(d, bool)
    if kind == "empty":
        return slice(0, 0)
    return slice(None)


def run_ops(case, stt):
    import pulsarbat as pb

    spec = case["sig"]
    z = G.build(spec)
    op = case["op"]
    cls = spec["cls"]

    def attempt(f, what):
        """the operation either refuses or returns an object that satisfies its class contract"""
        try:
            y = f()
        except (ValueError, IndexError, AssertionError, TypeError, KeyError):
            stt.label(op + "_refused")
            return None
        if isinstance(y, pb.Signal):
            contract(y, what)
        elif isinstance(y, tuple):
            for e in y:
                if isinstance(e, pb.Signal):
                    contract(e, what)
        return y

    ts = slice(*case["t"])
    if op == "tslice":
        attempt(lambda: z[ts], "z[%s]" % (case["t"],))
    elif op == "tfslice" and cls != "Signal":
        nchan = z.shape[1]
        attempt(lambda: z[ts, case["seed"] % nchan :], "z[t, f]")
    elif op == "index3" and z.ndim >= 3:
        shp = z.shape
        idx = (ts, slice(None)) + tuple(mk_index(k, d, case["seed"]) for k, d in zip(case["ix"], shp[2:]))
        attempt(lambda: z[idx], "z[%s]" % (case["ix"],))
    elif op == "ufunc":
        f = {"abs": np.abs, "negative": np.negative, "real": np.real, "square": np.square, "conj": np.conj, "add1": lambda s: s + 1,
             "mulc": lambda s: s * 1j, "isfinite": np.isfinite, "sqrt": np.sqrt, "angle": np.angle}[case["uf"]]
        attempt(lambda: f(z), "ufunc " + case["uf"])
    elif op == "like_kw":
        attempt(lambda: type(z).like(z, z.data[:, ...], sample_rate=z.sample_rate / 3), "like(sample_rate=...)")
    elif op == "stokes" and cls == "DualPolarizationSignal":
        attempt(lambda: z.to_stokes(), "to_stokes")
        attempt(lambda: z.to_circular()[ts], "to_circular()[t]")
    elif op == "to_intensity" and cls in G.BASEBAND:
        attempt(lambda: z.to_intensity(), "to_intensity")
    elif op == "fast_len":
        attempt(lambda: pb.fast_len(z), "fast_len")
    elif op == "tshift":
        attempt(lambda: pb.time_shift(z, 1.5, crop=True)[::2], "time_shift()[::2]")
    else:
        attempt(lambda: z[ts], "z[t]")
    stt.nt(op in ("index3", "tslice") and (case["t"][2] or 1) > 1 or op == "index3")
    stt.label("op_" + op)
    stt.label(cls)


# -- lazy arrays whose fixed axis has an unknown length ---------------------------------------------------------------------------------


def run_unknown(case, stt):
    """A Dask array may not know one of its lengths yet (boolean-mask indexing, from_delayed with nan).  The fixed axis of a Stokes /
    dual-polarisation signal must HAVE its length: an unknown one that really is another number cannot pass as 4 (or 2)."""
    import pulsarbat as pb
    import dask.array as da

    cls, true_len = case["cls"], case["len"]
    req = {"FullStokesSignal": 4, "DualPolarizationSignal": 2}[cls]
    dt = np.float32 if cls == "FullStokesSignal" else np.complex64
    x = np.zeros((case["n"], case["nchan"], 5), dtype=dt)
    mask = np.zeros(5, bool)
    mask[:true_len] = True
    lazy = da.from_array(x, chunks=(max(1, case["n"]), 1, 5))[:, :, da.from_array(mask, chunks=5)]
    assert np.isnan(lazy.shape[2])
    kw = dict(sample_rate=1 * u.kHz, center_freq=1 * u.GHz)
    if cls == "FullStokesSignal":
        kw["chan_bw"] = 1 * u.kHz
    else:
        kw["pol_type"] = "linear"
    if true_len != req:
        must_raise("%s of a lazy array whose %d-long fixed axis says 'unknown'" % (cls, true_len), lambda: getattr(pb, cls)(lazy, **kw), (ValueError,))
        stt.nt()
    else:
        # (the right length, not known yet: accepting or refusing are both defensible -- but an accepted object must compute to the contract)
        try:
            z = getattr(pb, cls)(lazy, **kw)
        except ValueError:
            stt.label("unknown_but_right_length_refused")
            return
        check(np.asarray(z.data).shape[2] == req, "accepted a lazy array of unknown length that computes to {}", np.asarray(z.data).shape)
    stt.label(cls)


unknown_case = st.fixed_dictionaries({"cls": st.sampled_from(["FullStokesSignal", "DualPolarizationSignal"]), "len": st.integers(0, 5),
                                      "n": st.integers(0, 6), "nchan": st.integers(1, 3)})


SUBS = [
    Sub("constructor", ctor_case(), run_ctor,
        "every class x array (NumPy/Dask) of generated shape (valid, too few dims, wrong fixed axis, empty sample shape, 0-d) and dtype (12 "
        "dtypes incl. uncastable ones) x every metadata argument valid or one of 3-7 invalid kinds; accepted iff the contract model accepts; "
        "non-trivial = exactly one violated clause, or a valid construction that needed a cast", quick=4000, thorough=80000, pieces_quick=4),
    Sub("assignment", assign_case(), run_assign,
        "valid and invalid values assigned to each metadata attribute after construction; refused assignments leave the object unchanged; all "
        "non-trivial", quick=1200, thorough=20000),
    Sub("copies", copy_case(), run_copy,
        "like(), like(data), pickle, compute/persist/to_dask_array/rechunk (also of Dask-backed and zero-length signals), base-class like(); "
        "every attribute and the data reproduced; in 6/7 of the cases one attribute of the original is then re-assigned and the same copy taken "
        "again (must show the current attributes); all non-trivial", quick=1500, thorough=20000, pieces_quick=3),
    Sub("operation_outputs", ops_case(), run_ops,
        "objects returned by library operations (stepped slices, index tuples touching fixed/trailing axes with ints/slices/lists/masks/empty "
        "ranges, ufuncs, like with changed arguments, conversions, cropped shifts): each call either refuses or returns an object satisfying "
        "its class contract; non-trivial = a stepped slice or an index on a third axis", quick=3000, thorough=60000, pieces_quick=4),
    Sub("lazy_unknown_lengths", unknown_case, run_unknown,
        "FullStokesSignal / DualPolarizationSignal of a Dask array whose fixed axis has an unknown (nan) length that really is 0..5: refused unless "
        "it is the required 4 / 2; non-trivial = a wrong length", quick=120, thorough=1000),
]

"""C10 -- concatenate is the exact inverse of splitting and refuses non-contiguous pieces."""

from fractions import Fraction as F

import numpy as np
import astropy.units as u
from hypothesis import strategies as st

from ..core import Sub, check, lib, must_raise
from .. import oracle as O, gen as G
from ..contract import contract, assert_start, assert_rate, assert_labels, bits_equal, rate_hz

ASSUMPTIONS = [
    "round trip: data bit-identical, class identical, sample_rate equal, start_time within the C01 time tolerance, channel labels within "
    "(8+2d) ulp (concatenation re-centres the band, so labels are compared by tolerance, never bitwise)",
    "perturbations are at least one whole sample / channel, sample-rate changes at least 1e-3 relative (the code documents isclose tolerances)",
    "pieces come from the library's own slicing (a slice is the only way to obtain a contiguous piece)",
]


def drop_start(s):
    return type(s).like(s, start_time=None)


def axis_arg(form, nd, which):
    """which = 0 (time) or 1 (freq)"""
    return {"int": which, "name": ["time", "freq"][which], "neg": which - nd, "np": np.int64(which)}[form]


def grouped(pb, pieces, plan, axis):
    """plan: 'flat' | 'left' | 'right' | 'pairs'"""
    if len(pieces) < 3 or plan == "flat":
        return pb.concatenate(pieces, axis=axis)
    if plan == "left":
        acc = pieces[0]
        for p in pieces[1:]:
            acc = pb.concatenate([acc, p], axis=axis)
        return acc
    if plan == "right":
        acc = pieces[-1]
        for p in reversed(pieces[:-1]):
            acc = pb.concatenate([p, acc], axis=axis)
        return acc
    mid = len(pieces) // 2
    return pb.concatenate([pb.concatenate(pieces[:mid], axis=axis), pb.concatenate(pieces[mid:], axis=axis)], axis=axis)


# -- 1. split along time ----------------------------------------------------------------------------------------


@st.composite
def tsplit_case(draw):
    spec = draw(G.signal_spec(nmin=0, nmax=60, nchan_max=6, max_trailing=1, sr=G.freq_q(0, 9.6)))
    N = spec["n"]
    k = draw(st.integers(0, 5))
    cuts = sorted(draw(st.lists(st.integers(0, N), min_size=k, max_size=k)))
    npieces = k + 1
    none = [draw(st.integers(0, 2)) == 0 for _ in range(npieces)]
    return {"sig": spec, "cuts": cuts, "none": none, "plan": draw(st.sampled_from(["flat", "left", "right", "pairs"])),
            "axis": draw(st.sampled_from(["int", "name", "neg", "np", "default"]))}


def run_tsplit(case, stt):
    import pulsarbat as pb

    spec = case["sig"]
    z = G.build(spec)
    N = spec["n"]
    b = [0] + case["cuts"] + [N]
    pieces = []
    with lib("slicing"):
        for a, c, dn in zip(b, b[1:], case["none"]):
            p = z[a:c]
            pieces.append(drop_start(p) if dn else p)
    ax = axis_arg(case["axis"], z.ndim, 0) if case["axis"] != "default" else None
    with lib("concatenate(time)"):
        if ax is None:
            y = pb.concatenate(pieces) if case["plan"] == "flat" or len(pieces) < 3 else grouped(pb, pieces, case["plan"], 0)
        else:
            y = grouped(pb, pieces, case["plan"], ax)
        flat = pb.concatenate(pieces, axis=0)
    for r, w in ((y, "concatenate[%s]" % case["plan"]), (flat, "concatenate[flat]")):
        contract(r, w)
        check(type(r) is type(z), "{}: type {} != {}", w, type(r).__name__, type(z).__name__)
        check(bits_equal(np.asarray(r.data), np.asarray(z.data)), "{}: data differ from the signal that was split", w)
        assert_rate(r, rate_hz(z), 0, w + ": ")
        check(r.meta == z.meta, "{}: meta changed", w)
        timed = [i for i, (p, dn) in enumerate(zip(pieces, case["none"])) if not dn]
        if z.start_time is not None and timed:
            assert_start(r, O.T(z.start_time), k=4, offset_s=N / rate_hz(z), what=w + ": ")
        else:
            check(r.start_time is None, "{}: start_time appeared although no piece had one", w)
        if spec["cls"] != "Signal":
            assert_labels(r, G.exact_labels(spec), 2, w + ": ")
            check(O.hz(r.chan_bw) == O.hz(z.chan_bw), "{}: chan_bw changed", w)
    lens = [c - a for a, c in zip(b, b[1:])]
    stt.nt(len(pieces) >= 3 and (0 in lens or any(case["none"])))
    stt.label(spec["cls"])
    stt.label("pieces_%d" % len(pieces))
    stt.label("plan_" + case["plan"])
    stt.label("axis_" + case["axis"])
    # timed / untimed non-empty / timed
    pat = [("N" if dn else "T") + ("0" if ln == 0 else "") for dn, ln in zip(case["none"], lens)]
    s = "".join(p[0] for p, ln in zip(pat, lens) if ln > 0)
    stt.label("has_T-N-T" if "TNT" in s.replace("NN", "N") else "no_T-N-T")


# -- 2. split along frequency -----------------------------------------------------------------------------------


@st.composite
def fsplit_case(draw):
    spec = draw(G.signal_spec(classes=G.RADIO, nmin=0, nmax=12, nchan_max=17, max_trailing=1).filter(lambda s: s["sshape"][0] >= 2))
    nchan = spec["sshape"][0]
    k = draw(st.integers(1, min(4, nchan - 1)))
    cuts = sorted(draw(st.lists(st.integers(1, nchan - 1), min_size=k, max_size=k, unique=True)))
    none = [draw(st.integers(0, 3)) == 0 for _ in range(k + 1)]
    return {"sig": spec, "cuts": cuts, "none": none, "plan": draw(st.sampled_from(["flat", "left", "right", "pairs"])),
            "axis": draw(st.sampled_from(["int", "name", "neg", "np"]))}


def run_fsplit(case, stt):
    import pulsarbat as pb

    spec = case["sig"]
    z = G.build(spec)
    nchan = spec["sshape"][0]
    b = [0] + case["cuts"] + [nchan]
    pieces = []
    with lib("slicing"):
        for a, c, dn in zip(b, b[1:], case["none"]):
            p = z[:, a:c]
            pieces.append(drop_start(p) if dn else p)
    ax = axis_arg(case["axis"], z.ndim, 1)
    with lib("concatenate(freq)"):
        y = grouped(pb, pieces, case["plan"], ax)
    contract(y, "concatenate(freq)")
    check(type(y) is type(z), "type {} != {}", type(y).__name__, type(z).__name__)
    check(bits_equal(np.asarray(y.data), np.asarray(z.data)), "data differ from the signal that was split along frequency")
    assert_labels(y, G.exact_labels(spec), 2 + len(pieces), "concatenate(freq): ")
    assert_rate(y, rate_hz(z), 0, "concatenate(freq): ")
    check(O.hz(y.chan_bw) == O.hz(z.chan_bw), "chan_bw changed")
    if z.start_time is not None and not all(case["none"]):
        assert_start(y, O.T(z.start_time), k=2, what="concatenate(freq): ")
    else:
        check(y.start_time is None, "start_time appeared")
    widths = [c - a for a, c in zip(b, b[1:])]
    stt.nt(nchan % 2 == 0 and spec["align"] != "center" and any(w % 2 for w in widths))
    stt.label(spec["cls"])
    stt.label("align_" + spec["align"])
    stt.label("plan_" + case["plan"])


# -- 3. perturbations must be refused ----------------------------------------------------------------------------

TIME_PERT = ["shift_start", "swap", "overlap", "gap", "rate", "chan_bw", "center_freq", "class", "twice", "start_missing_ok", "rate_unit",
             "chan_bw_unit", "rate_equiv_ok", "scale_equiv_ok", "scale_reading", "align_flip", "align_equiv_ok"]


def other_unit(qq, same_number):
    """the quantity's NUMBER in another frequency unit (a different rate), or the same rate written in another unit"""
    new = u.kHz if qq.unit == u.Hz else (u.Hz if qq.unit in (u.kHz, u.MHz) else u.MHz)
    return u.Quantity(qq.value, new) if same_number else qq.to(new)

FREQ_PERT = ["f_gap", "f_overlap", "f_order", "f_start", "f_rate", "f_twice", "f_align_equiv_ok", "f_align_equiv_ok"]
OTHER_PERT = ["o_start", "o_labels", "o_rate"]


@st.composite
def pert_case(draw):
    kind = draw(st.sampled_from(TIME_PERT + FREQ_PERT + OTHER_PERT))
    radio_needed = kind in ("chan_bw", "center_freq", "chan_bw_unit", "align_flip", "align_equiv_ok") or kind in FREQ_PERT or kind == "o_labels"
    classes = G.RADIO if radio_needed else G.CLASSES
    if kind in ("chan_bw", "chan_bw_unit"):
        classes = ["RadioSignal", "IntensitySignal", "FullStokesSignal"]
    mt = 1
    spec = draw(G.signal_spec(classes=classes, nmin=4, nmax=40, nchan_max=9, max_trailing=mt, start="some", sr=G.freq_q(0, 9.6)))
    if kind in FREQ_PERT and spec["sshape"][0] < 4:
        spec["sshape"][0] = draw(st.integers(4, 9))
    if kind == "f_align_equiv_ok":
        spec["sshape"][0] = draw(st.sampled_from([4, 6, 8]))
    if kind in ("align_flip", "align_equiv_ok"):
        spec["sshape"][0] = draw(st.sampled_from([2, 4, 6, 8]))  # alignment only matters for an even channel count
        spec["align"] = draw(st.sampled_from(["bottom", "top"]))
    if kind in OTHER_PERT:
        # need a trailing axis to join along: force one
        cls = spec["cls"]
        base = 0 if cls == "Signal" else (2 if cls in ("FullStokesSignal", "DualPolarizationSignal") else 1)
        if len(spec["sshape"]) <= base:
            spec["sshape"] = spec["sshape"] + [2]
    N = spec["n"]
    return {"sig": spec, "kind": kind, "a": draw(st.integers(1, N - 2)), "k": draw(st.integers(1, 5)), "sign": draw(st.sampled_from([-1, 1])),
            "r": draw(st.sampled_from([1e-3, 1e-2, 0.5, 1.0, -1e-3, -0.25])), "j": draw(st.integers(0, 1)),
            "axis": draw(st.sampled_from(["int", "name", "neg"])), "via": draw(st.sampled_from(["like", "assign"]))}


def other_class(pb, s):
    kw = dict(sample_rate=s.sample_rate, start_time=s.start_time, meta=s.meta)
    if type(s) is pb.Signal:
        d = s.data.reshape(s.data.shape[0], -1) if s.ndim == 1 else s.data
        return pb.RadioSignal(d if d.ndim >= 2 else d[:, None], center_freq=1 * u.GHz, chan_bw=1 * u.MHz, **kw)
    return pb.Signal(s.data, **kw)


def perturbed(p, via, **kw):
    """a piece with one metadata field changed: a new object (like) or the same object after attribute assignment --
    in the second case the piece has been fully inspected before (labels, times), so nothing stale may survive"""
    if via != "assign":
        return type(p).like(p, **kw)
    q = type(p).like(p)
    _ = (getattr(q, "channel_freqs", None), q.stop_time, getattr(q, "min_freq", None), q.time_length)
    for k, v in kw.items():
        setattr(q, k, v)
    return q


def run_pert(case, stt):
    import pulsarbat as pb

    spec = case["sig"]
    z = G.build(spec)
    via = case.get("via", "like")
    N, a, k, kind = spec["n"], case["a"], case["k"], case["kind"]
    nd = z.ndim
    dt = 1 / z.sample_rate
    ax_t = axis_arg(case["axis"], nd, 0)
    p0, p1 = z[:a], z[a:]
    good = None
    if kind == "shift_start":
        bad = [p0, perturbed(p1, via, start_time=p1.start_time + case["sign"] * k * dt)]
    elif kind == "swap":
        bad = [p1, p0]
    elif kind == "overlap":
        bad = [p0, z[a - 1 :]]
    elif kind == "gap":
        bad = [p0, z[a + 1 :]]
    elif kind == "rate":
        q = type(p1).like(p1, sample_rate=p1.sample_rate * (1 + case["r"]))
        # keep it nominally contiguous in time: only the rate differs
        bad = [p0, q] if case["j"] else [q, p0]
        if not case["j"]:
            bad = [type(p0).like(p0, sample_rate=p0.sample_rate * (1 + case["r"])), p1]
    elif kind == "rate_unit":
        # the same NUMBER in another unit (2 Hz next to 2 kHz): a different rate
        if isinstance(z, pb.BasebandSignal):
            bad = [p0, type(p1).like(p1, sample_rate=other_unit(p1.sample_rate, True))]
        else:
            bad = [p0, perturbed(p1, via, sample_rate=other_unit(p1.sample_rate, True))]
        if not case["j"]:
            bad = bad[::-1]
            bad[0].start_time, bad[1].start_time = p0.start_time, None  # (nominally contiguous either way)
    elif kind == "chan_bw_unit":
        bad = [p0, perturbed(p1, via, chan_bw=other_unit(p1.chan_bw, True))]
    elif kind == "rate_equiv_ok":
        # the SAME rate written in another unit is the same rate
        q = type(p1).like(p1, sample_rate=other_unit(p1.sample_rate, False))
        if float(O.hz(q.sample_rate) / O.hz(p1.sample_rate) - 1) == 0.0:
            good, bad = [p0, q], None
        else:
            good, bad = [p0, p1], None  # (conversion not exact in doubles)
    elif kind == "scale_equiv_ok":
        # the same instant written in another time scale is the same instant
        other = "tai" if p1.start_time.scale != "tai" else "utc"
        good, bad = [p0, type(p1).like(p1, start_time=getattr(p1.start_time, other))], None
    elif kind == "scale_reading":
        # the same calendar READING in another time scale is another instant (tens of seconds away)
        from astropy.time import Time as _T

        t = p1.start_time
        other = "tai" if t.scale != "tai" else "utc"
        bad = [p0, type(p1).like(p1, start_time=_T(t.jd1, t.jd2, format="jd", scale=other))]
    elif kind == "align_flip":
        # even channel count, same centre frequency, 'bottom' against 'top': every label is one channel off
        flip = "top" if p1.freq_align == "bottom" else "bottom"
        bad = [p0, perturbed(p1, via, freq_align=flip)]
    elif kind == "align_equiv_ok":
        # ... and the same labels written with the other alignment (centre moved by one channel) are the same band
        flip, sgn = ("top", -1) if p1.freq_align == "bottom" else ("bottom", 1)
        q = type(p1).like(p1, freq_align=flip, center_freq=p1.center_freq + sgn * p1.chan_bw)
        same = all(abs(a - b) <= abs(O.hz(p1.chan_bw)) * F(1, 10**9) for a, b in zip(O.hz_arr(q.channel_freqs), O.hz_arr(p1.channel_freqs)))
        good, bad = ([p0, q] if same else [p0, p1]), None
    elif kind == "chan_bw":
        bad = [p0, perturbed(p1, via, chan_bw=p1.chan_bw * 2)]
    elif kind == "center_freq":
        bad = [p0, perturbed(p1, via, center_freq=p1.center_freq + case["sign"] * k * p1.chan_bw)]
    elif kind == "class":
        bad = [p0, other_class(pb, p1)]
    elif kind == "twice":
        bad = [p0, p0] if case["j"] else [p0, p1, p1]
    elif kind == "start_missing_ok":
        good, bad = [p0, drop_start(p1)], None
    elif kind in FREQ_PERT:
        nchan = z.shape[1]
        c = 1 + (a % (nchan - 2))  # 1..nchan-2
        ax_f = axis_arg(case["axis"], nd, 1)
        f0, f1 = z[:, :c], z[:, c:]
        if kind == "f_align_equiv_ok":
            # pieces of even width whose labels are written with 'bottom' / 'top' alignment (centre moved by half a channel): the same bands,
            # so they join, and the joined labels are the original ones
            c = 2 * (1 + a % (nchan // 2 - 1))
            pieces = []
            for piece, al in zip((z[:, :c], z[:, c:]), (("bottom", "top")[case["j"]], ("top", "bottom", "center")[k % 3])):
                sgn = {"bottom": 1, "top": -1, "center": 0}[al]
                q = type(piece).like(piece, freq_align=al, center_freq=piece.center_freq + sgn * piece.chan_bw / 2)
                same = all(abs(x - y) <= abs(O.hz(piece.chan_bw)) * F(1, 10**9) for x, y in zip(O.hz_arr(q.channel_freqs), O.hz_arr(piece.channel_freqs)))
                pieces.append(q if same else piece)
                stt.label("piece_aligned_" + (al if same else "center"))
            with lib("concatenate(freq) of pieces labelled with bottom/top alignment"):
                y = pb.concatenate(pieces, axis=ax_f)
            check(type(y) is type(z) and bits_equal(np.asarray(y.data), np.asarray(z.data)), "frequency join of re-labelled pieces: data differ")
            bwz = abs(O.hz(z.chan_bw))
            for i, (g, e) in enumerate(zip(O.hz_arr(y.channel_freqs), G.exact_labels(spec))):
                check(abs(g - e) <= bwz * F(1, 10**6) + abs(e) * F(1, 2**46), "frequency join of pieces aligned {}: channel {} is labelled {} Hz, the "
                      "pieces' labels say {} Hz", [q.freq_align for q in pieces], i, float(g), float(e))
            stt.nt()
            stt.label(kind)
            return
        if kind == "f_gap":
            bad = [f0, z[:, c + 1 :]]
        elif kind == "f_overlap":
            bad = [f0, z[:, c - 1 :]] if c >= 1 else [f0, f0]
        elif kind == "f_order":
            bad = [f1, f0]
        elif kind == "f_start":
            bad = [f0, perturbed(f1, via, start_time=f1.start_time + case["sign"] * k * dt)]
        elif kind == "f_rate":
            if isinstance(z, pb.BasebandSignal):
                bad = [f0, type(f1).like(f1, sample_rate=f1.sample_rate * (1 + abs(case["r"]) + 1e-3))]
            else:
                bad = [f0, type(f1).like(f1, sample_rate=f1.sample_rate * (1 + case["r"]))]
        else:
            bad = [f0, f0]
        must_raise("concatenate(freq) of %s" % kind, lambda: pb.concatenate(bad, axis=ax_f), (ValueError, TypeError))
        stt.nt()
        stt.label(kind)
        return
    else:
        # join along a trailing axis: start time / labels / rate must agree
        tr = nd - 1
        axo = tr if case["axis"] != "neg" else -1
        if kind == "o_start":
            bad = [z, perturbed(z, via, start_time=z.start_time + case["sign"] * k * dt)]
        elif kind == "o_labels":
            bad = [z, perturbed(z, via, center_freq=z.center_freq + case["sign"] * k * z.chan_bw)]
        else:
            bad = [z, type(z).like(z, sample_rate=z.sample_rate * (1 + case["r"]))]
        fixed = {"FullStokesSignal": 2, "DualPolarizationSignal": 2}.get(spec["cls"])
        if fixed is not None and tr == fixed:
            stt.label("skip_fixed_axis")
            return
        must_raise("concatenate(trailing axis) of %s" % kind, lambda: pb.concatenate(bad, axis=axo), (ValueError, TypeError))
        # the unperturbed pair is accepted along that axis
        with lib("concatenate(trailing axis)"):
            ok = pb.concatenate([z, z], axis=axo)
        check(ok.shape[tr] == 2 * z.shape[tr] and bits_equal(np.asarray(ok.data), np.concatenate([z.data, z.data], axis=tr)),
              "joining along a trailing axis gave wrong data")
        stt.nt()
        stt.label(kind)
        return
    if good is not None:
        with lib("concatenate with a piece lacking start time"):
            y = pb.concatenate(good, axis=ax_t)
        check(bits_equal(np.asarray(y.data), np.asarray(z.data)), "data differ")
        assert_start(y, O.T(z.start_time), k=3, offset_s=N / rate_hz(z), what="concatenate: ")
    else:
        must_raise("concatenate(time) of %s" % kind, lambda: pb.concatenate(bad, axis=ax_t), (ValueError, TypeError))
    stt.nt()
    stt.label(kind)
    stt.label("via_" + via)


@st.composite
def long_case(draw):
    """long signals: a piece that follows 10^5 .. 2*10^6 samples, perturbed by one or two samples (a contiguity test whose tolerance grew with
    the elapsed time would let these through), and the unperturbed split"""
    n = draw(st.sampled_from([100003, 300000, 2**20, 2 * 10**6]))
    spec = draw(G.signal_spec(classes=["Signal", "RadioSignal", "BasebandSignal"], nmin=1, nmax=1, nchan_max=1, max_trailing=0, start="some",
                              dtypes=["f4", "c8"], sr=G.freq_q(0, 9.6)))
    spec["n"] = n
    return {"sig": spec, "cut": draw(st.integers(n * 3 // 4, n - 3)), "k": draw(st.sampled_from([1, -1, 2, -2, 3])),
            "how": draw(st.sampled_from(["gap_or_overlap", "shift_start", "ok", "rate_drift", "rate_drift"]))}


def run_long(case, stt):
    import pulsarbat as pb

    spec = case["sig"]
    z = G.build(spec)
    n, a, k = spec["n"], case["cut"], case["k"]
    p0 = z[:a]
    if case["how"] == "ok":
        with lib("concatenate of a long split"):
            y = pb.concatenate([p0, z[a:]])
        check(len(y) == n and bits_equal(np.asarray(y.data), np.asarray(z.data)), "long split not reproduced")
        assert_start(y, O.T(z.start_time), k=1, what="concatenate (long): ")
    elif case["how"] == "rate_drift":
        # the second piece's sample rate is off by so little that only its LENGTH makes it matter: |k| + 1 samples of drift over the piece
        p1 = z[a:]
        rel = (abs(k) + 1) / max(len(p1), 1)
        if rel > 0.25:
            stt.label("skip_piece_too_short_for_drift")
            return
        q = type(p1).like(p1, sample_rate=p1.sample_rate * (1 + (rel if k > 0 else -rel)))
        if spec["cls"] in G.BASEBAND:
            stt.label("skip_baseband_rate")  # (the rate of a baseband piece is also its channel width: another refusal)
            return
        must_raise("concatenate(time) with a piece whose sample rate differs by %.2g (%d samples of drift over its %d samples)" % (rel, abs(k) + 1, len(p1)),
                   lambda: pb.concatenate([p0, q]), (ValueError,))
    elif case["how"] == "gap_or_overlap":
        must_raise("concatenate(time) with a %+d-sample gap after %d samples" % (k, a), lambda: pb.concatenate([p0, z[a + k :]]), (ValueError,))
    else:
        p1 = z[a:]
        q = type(p1).like(p1, start_time=p1.start_time + k / z.sample_rate)
        must_raise("concatenate(time) with the second piece's start moved by %+d samples after %d samples" % (k, a), lambda: pb.concatenate([p0, q]),
                   (ValueError,))
    stt.nt()
    stt.label(case["how"])


def run_misc(spec, stt):
    import pulsarbat as pb

    z = G.build(spec)
    must_raise("empty sequence", lambda: pb.concatenate([]), (ValueError,))
    must_raise("non-signal items", lambda: pb.concatenate([z.data, z.data]), (TypeError,))
    if spec["cls"] == "Signal":
        must_raise("axis='freq' for plain Signals", lambda: pb.concatenate([z, z], axis="freq"), (TypeError, ValueError))
    # an axis the signals do not have is refused (not taken modulo the rank: concatenate([s, s], axis=-2) on 1-D signals would otherwise join
    # two overlapping pieces along time without the contiguity test)
    for bad_axis in (z.ndim, z.ndim + 1, -z.ndim - 1, -z.ndim - 2, -2 * z.ndim - 1):
        must_raise("concatenate([z, z], axis=%d) for %d-dimensional signals" % (bad_axis, z.ndim), lambda: pb.concatenate([z, z], axis=bad_axis),
                   (ValueError, IndexError, TypeError))
    with lib("single signal"):
        y = pb.concatenate([z])
    check(bits_equal(np.asarray(y.data), np.asarray(z.data)) and type(y) is type(z), "concatenate([z]) != z")
    stt.nt()


SUBS = [
    Sub("split_time", tsplit_case(), run_tsplit,
        "any class, N 0..60, 0..5 cut points (repeated, 0, N), random pattern of pieces without start time, groupings flat/left/right/pairs "
        "(associativity), axis as 0/'time'/-ndim/np.int64/default; non-trivial = >= 3 pieces with an empty piece or a missing start time",
        quick=2500, thorough=50000, pieces_quick=4),
    Sub("split_freq", fsplit_case(), run_fsplit,
        "radio classes, nchan 2..17, 1..4 channel cuts, all alignments, groupings, axis as 1/'freq'/1-ndim; non-trivial = even 'bottom'/'top' "
        "band split into at least one odd piece", quick=1500, thorough=30000, pieces_quick=4),
    Sub("perturbations", pert_case(), run_pert,
        "one piece perturbed by >= 1 sample/channel: start time, swap, overlap, gap, sample rate, chan_bw, centre frequency, class, repeated "
        "piece, the same NUMBER in another unit for sample_rate / chan_bw (must raise), the same rate written in another unit (must be accepted); along frequency: gap/overlap/order/start/rate/repeat; along a trailing axis: start/labels/rate -> must raise; every case "
        "non-trivial", quick=1500, thorough=30000, pieces_quick=4),
    Sub("long_signals", long_case(), run_long,
        "signals of 1e5 .. 2e6 samples cut in the last quarter: the split is reproduced; a gap/overlap of 1-3 samples or a start time moved by 1-3 "
        "samples is refused however many samples precede it; all non-trivial", quick=40, thorough=400, pieces_quick=2),
    Sub("misc", G.signal_spec(nmin=1, nmax=8, nchan_max=3, max_trailing=1), run_misc, "empty list, non-signals, 'freq' on plain signals, axis numbers outside the rank, single "
        "signal", quick=60, thorough=600, pieces_quick=1),
]

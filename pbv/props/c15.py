"""C15 -- Phase ordering, reductions and decimal I/O use the full two-part value."""

import math
import operator
from decimal import Decimal
from fractions import Fraction as F

import numpy as np
import astropy.units as u
from hypothesis import strategies as st

from ..core import Sub, check, lib, must_raise, Violation
from .. import oracle as O
from .c07 import is_phase, mk_phase, SPECIAL_FRAC

TWO52 = F(1, 2**52)
ASSUMPTIONS = [
    "exact order of two phases = order of Fraction(int)+Fraction(frac); pairs whose exact difference is non-zero but below 2^-52 cycles are "
    "unconstrained (either answer accepted)",
    "rendering with p decimals must be within 1/2 * 10^-p of the exact value (ties either way); default rendering within 1e-16 cycles",
    "strings: optional sign, digits with/without a decimal point, empty integer or fractional part, leading zeros, up to 30 significant "
    "digits, exponent e/E/d/D +-0..25, optional trailing j, surrounding blanks; |value| < 4e15",
]


# ---------------------------------------------------------------------------------------------
# generators
# ---------------------------------------------------------------------------------------------


@st.composite
def phase_array(draw, ndim=None):
    nd = draw(st.integers(1, 2)) if ndim is None else ndim
    shape = [draw(st.integers(1, 5)) for _ in range(nd)]
    n = int(np.prod(shape))
    mode = draw(st.sampled_from(["near_ties", "near_ties", "lanes", "mixed", "ties", "near_half", "near_half"]))
    big = draw(st.sampled_from([0, 1, 10**6, 2**40, 10**15, 2**51, -(2**50), -(10**15), 3]))
    counts, fracs = [], []
    base_f = draw(st.floats(-0.4, 0.4))
    for i in range(n):
        if mode == "ties":
            c, f = big, base_f
        elif mode == "near_ties":
            c = big
            f = base_f + draw(st.integers(-8, 8)) * 2.0 ** draw(st.sampled_from([-52, -51, -50, -45, -40, -30]))
        elif mode == "near_half":
            # fractions within a few ulps of +-1/2 (an ulp there is 2^-54): the single-double value of count + fraction rounds up to the next
            # half cycle, and the ordering rests on what is left over
            c = big if abs(big) < 2**40 else 4
            f = draw(st.sampled_from([-1, 1])) * (0.5 - draw(st.integers(0, 12)) * 2.0**-54)
        elif mode == "lanes":
            # rows/columns of very different magnitude, sub-ulp near ties within a lane
            lane = (i // shape[-1]) if nd == 2 else 0
            c = [big, 1, -big, 7][lane % 4]
            f = base_f / 2 + draw(st.integers(-8, 8)) * 2.0 ** draw(st.sampled_from([-50, -45, -40, -7]))
        else:
            c = draw(st.sampled_from([big, -big, big + 1, 0, 1, -1, 2**33]))
            f = draw(st.one_of(st.sampled_from(SPECIAL_FRAC), st.floats(-0.5, 0.5)))
        f = min(0.5, max(-0.5, f))
        counts.append(int(c))
        fracs.append(float(f))
    return {"shape": shape, "count": counts, "frac": fracs, "imag": False, "mode": mode}


def exact(ps):
    return [F(c) + F(f) for c, f in zip(ps["count"], ps["frac"])]


# ---------------------------------------------------------------------------------------------
# 1. comparisons
# ---------------------------------------------------------------------------------------------

CMP = {"<": operator.lt, "<=": operator.le, "==": operator.eq, "!=": operator.ne, ">": operator.gt, ">=": operator.ge}


@st.composite
def cmp_case(draw):
    a = draw(phase_array())
    kind = draw(st.sampled_from(["phase_same", "phase_shuffled", "phase_scalar", "number", "quantity", "self"]))
    perm = draw(st.permutations(range(len(a["count"]))))
    delta = draw(st.sampled_from([0.0, 2.0**-52, -(2.0**-52), 2.0**-50, -(2.0**-45), 2.0**-30, 0.25]))
    return {"a": a, "kind": kind, "perm": list(perm), "delta": delta, "op": draw(st.sampled_from(sorted(CMP))), "k": draw(st.integers(0, 10**6))}


def run_cmp(case, stt):
    import pulsarbat as pb

    a = case["a"]
    pa = mk_phase(a)
    ea = O.phase_fractions(pa)
    n = len(ea)
    kind = case["kind"]
    if kind in ("phase_same", "phase_shuffled", "self"):
        idx = case["perm"] if kind == "phase_shuffled" else list(range(n))
        b = dict(a, count=[a["count"][i] for i in idx], frac=[min(0.5, max(-0.5, a["frac"][i] + (0 if kind == "self" else case["delta"]))) for i in idx])
        pbb = pa if kind == "self" else mk_phase(b)
        eb = O.phase_fractions(pbb)
    elif kind == "phase_scalar":
        j = case["k"] % n
        pbb = pb.Phase(float(a["count"][j]), min(0.5, max(-0.5, a["frac"][j] + case["delta"])))
        eb = [O.phase_fraction(pbb)] * n
    elif kind == "number":
        j = case["k"] % n
        v = float(a["count"][j]) + (0.5 if abs(a["count"][j]) < 2**40 else 0.0)
        pbb, eb = v, [F(v)] * n
    else:
        j = case["k"] % n
        v = float(a["count"][j]) + (0.25 if abs(a["count"][j]) < 2**40 else 0.0)
        pbb, eb = v * u.cycle, [F(v)] * n
    opn = case["op"]
    with lib("phase %s %s" % (opn, kind)):
        r = CMP[opn](pa, pbb)
        swapped = {"<": ">", "<=": ">=", "==": "==", "!=": "!=", ">": "<", ">=": "<="}[opn]
        r2 = CMP[swapped](pbb, pa) if kind != "number" else r
        # the same comparisons spelled as NumPy ufunc calls, the Phase as first and as second operand (for a Quantity also as an Angle)
        UFN = {"<": np.less, "<=": np.less_equal, "==": np.equal, "!=": np.not_equal, ">": np.greater, ">=": np.greater_equal}
        other = pbb
        if kind == "quantity" and case["k"] % 2:
            from astropy.coordinates import Angle

            other = Angle(pbb)
        r3 = UFN[opn](pa, other) if kind != "number" else r
        r4 = UFN[swapped](other, pa) if kind != "number" else r
    rv, r2v = np.asarray(r).ravel(), np.asarray(r2).ravel()
    check(rv.dtype == bool and len(rv) == n, "comparison result dtype/shape {} {}", rv.dtype, np.shape(r))
    for w, rr in (("np.<ufunc>(phase, other)", r3), ("np.<swapped ufunc>(other, phase)", r4)):
        check(np.array_equal(np.asarray(rr).ravel(), rv),
              "{} disagrees with the operator form of phase {} {}: {} vs {}", w, opn, kind, np.asarray(rr).ravel().tolist(), rv.tolist())
    hard = 0
    for x, y, g, g2 in zip(ea, eb, rv, r2v):
        d = x - y
        want = CMP[opn](x, y)  # (exact: two phases, however close, are two numbers)
        check(bool(g) == want, "{} {} {} evaluates to {} (exact difference {:.3g} cycles)", _fmt(x), opn, _fmt(y), bool(g), float(d))
        check(bool(g2) == want, "swapped comparison disagrees for {} {} {}", _fmt(x), opn, _fmt(y))
        if d != 0 and abs(d) < abs(x) * F(1, 2**52):
            hard += 1
    stt.nt(hard > 0)
    stt.label("kind_" + kind)
    stt.label("mode_" + a["mode"])


def _fmt(e):
    i = math.floor(e + F(1, 2))
    return "%d%+.17g" % (i, float(e - i))


# ---------------------------------------------------------------------------------------------
# 2. reductions
# ---------------------------------------------------------------------------------------------


@st.composite
def red_case(draw):
    a = draw(phase_array())
    nd = len(a["shape"])
    axis = draw(st.sampled_from([None] + list(range(-nd, nd))))
    return {"a": a, "axis": axis, "fn": draw(st.sampled_from(["min", "max", "argmin", "argmax", "sort", "argsort", "ptp", "np.min", "np.max", "np.argmin",
                                                             "np.argmax"])),
            "keepdims": draw(st.booleans()), "layout": draw(st.sampled_from(["C", "C", "T", "F", "strided"])),
            # history on the object: an ordering call first, then a sanctioned in-place update, then the measured call
            "warm": draw(st.sampled_from([None, None, "argsort", "min", "ptp", "argmax"])),
            "update": draw(st.sampled_from([None, "negate", "scale", "add"])), "upd_pick": draw(st.integers(0, 10**6))}


def run_red(case, stt):
    import pulsarbat as pb

    a = case["a"]
    p = mk_phase(a)
    shape = tuple(a["shape"])
    lay = case.get("layout", "C")
    if lay == "T" and len(shape) == 2:
        p = p.T  # a transposed view: F-contiguous, not C-contiguous
        shape = shape[::-1]
    elif lay == "F" and len(shape) == 2:
        p = p.copy(order="F") if hasattr(p, "copy") else p
    elif lay == "strided" and shape[-1] >= 2:
        p = p[..., ::2]
        shape = p.shape
    n_el = int(np.prod(shape))
    if case.get("warm") and n_el:
        with lib("%s before an in-place update" % case["warm"]):
            _ = getattr(p, case["warm"])()
        upd = case.get("update")
        if upd == "scale" and max(abs(e) for e in O.phase_fractions(p.copy(order="C"))) > 2**50:
            upd = "negate"  # (x -3 would leave the property's domain, counts up to 2^52)
        with lib("in-place update %s" % upd):
            if upd == "negate":
                np.negative(p, out=p)
            elif upd == "scale":
                p *= -3
            elif upd == "add":
                k = case["upd_pick"]
                q = pb.Phase(np.array([float((k + 7 * i) % 5 - 2) * 2.0**40 for i in range(n_el)]).reshape(shape),
                             np.array([((k + i) % 3 - 1) * 1e-11 for i in range(n_el)]).reshape(shape))
                p += q
        is_phase(p, "in-place update")
        stt.label("history_%s_then_%s" % (case["warm"], upd))
    ex = np.empty(n_el, dtype=object)
    ex[:] = O.phase_fractions(np.ascontiguousarray(p) if False else p.copy(order="C"))
    E = ex.reshape(shape)
    a = dict(a, shape=list(shape), count=[0] * n_el)
    axis, fn = case["axis"], case["fn"]
    kd = case["keepdims"] and fn in ("min", "max", "ptp")
    what = "%s(axis=%s%s)" % (fn, axis, ", keepdims" if kd else "")

    def lanes(arr):
        """-> list of (lane index tuple, 1-d object array)"""
        if axis is None:
            return [((), arr.ravel())]
        ax = axis % arr.ndim
        out = []
        for ix in np.ndindex(*[s for i, s in enumerate(arr.shape) if i != ax]):
            sl = list(ix)
            sl.insert(ax, slice(None))
            out.append((ix, arr[tuple(sl)]))
        return out

    with lib(what):
        if fn in ("min", "max", "ptp"):
            r = getattr(p, fn)(axis=axis, keepdims=True) if kd else getattr(p, fn)(axis=axis)
        elif fn in ("np.min", "np.max"):
            r = getattr(np, fn[3:])(p, axis=axis)
        elif fn in ("argmin", "argmax"):
            r = getattr(p, fn)(axis=axis)
        elif fn in ("np.argmin", "np.argmax"):
            r = getattr(np, fn[3:])(p, axis=axis)
        elif fn == "sort":
            r = p.sort(axis=axis if axis is not None else None)
        else:
            r = p.argsort(axis=axis if axis is not None else None)
    base = fn.replace("np.", "")
    hard = 0
    if base in ("min", "max", "ptp"):
        is_phase(r, what)
        got = np.empty(int(np.prod(r.shape)) if r.shape else 1, dtype=object)
        got[:] = O.phase_fractions(r)
        L = lanes(E)
        check(len(got) == len(L), "{}: result has {} elements for {} lanes (shape {})", what, len(got), len(L), r.shape)
        if kd and axis is not None:  # (keepdims with axis=None is not pinned down by the property)
            exp_shape = tuple(1 if i == axis % len(shape) else s for i, s in enumerate(shape))
            check(tuple(r.shape) == exp_shape, "{}: keepdims shape {} != {}", what, r.shape, exp_shape)
        for g, (ix, lane) in zip(got, L):
            lo, hi = min(lane), max(lane)
            if base == "min":
                check(g == lo, "{}: lane {} gives {} but the exact minimum is {}", what, ix, _fmt(g), _fmt(lo))
            elif base == "max":
                check(g == hi, "{}: lane {} gives {} but the exact maximum is {}", what, ix, _fmt(g), _fmt(hi))
            else:
                check(abs(g - (hi - lo)) <= 3 * TWO52, "{}: lane {} gives {} but max - min is {}", what, ix, _fmt(g), _fmt(hi - lo))
            srt = sorted(lane)
            if len(srt) > 1 and 0 < (srt[1] - srt[0] if base != "max" else srt[-1] - srt[-2]) < max(abs(lo), abs(hi)) * F(1, 2**52):
                hard += 1
    elif base in ("argmin", "argmax"):
        idx = np.asarray(r)
        L = lanes(E)
        flat = idx.ravel() if idx.shape else np.array([int(idx)])
        check(len(flat) == len(L), "{}: {} indices for {} lanes", what, len(flat), len(L))
        for i, (ix, lane) in zip(flat, L):
            check(0 <= int(i) < len(lane), "{}: index {} out of range", what, i)
            lo, hi = min(lane), max(lane)
            if base == "argmin":
                check(lane[int(i)] == lo, "{}: lane {} -> index {} holding {} but the exact minimum is {}", what, ix, int(i), _fmt(lane[int(i)]), _fmt(lo))
            else:
                check(hi == lane[int(i)], "{}: lane {} -> index {} holding {} but the exact maximum is {}", what, ix, int(i), _fmt(lane[int(i)]), _fmt(hi))
            srt = sorted(lane)
            if len(srt) > 1 and 0 < (srt[1] - srt[0] if base == "argmin" else srt[-1] - srt[-2]) < max(abs(lo), abs(hi)) * F(1, 2**52):
                hard += 1
    elif base == "sort":
        is_phase(r, what)
        got = np.empty(len(a["count"]), dtype=object)
        got[:] = O.phase_fractions(r)
        G_ = got.reshape(r.shape if axis is not None else (-1,))
        Lg = lanes(G_) if axis is not None else [((), G_.ravel())]
        Le = lanes(E)
        for (ix, lg), (_, le) in zip(Lg, Le):
            check(sorted(lg) == sorted(le), "{}: lane {} is not a permutation of the input", what, ix)
            for x, y in zip(lg, lg[1:]):
                check(y - x >= 0, "{}: lane {} not in non-decreasing order: {} before {}", what, ix, _fmt(x), _fmt(y))
            s = sorted(le)
            hard += any(0 < y - x < max(abs(x), abs(y)) * F(1, 2**52) for x, y in zip(s, s[1:]))
    else:
        idx = np.asarray(r)
        if axis is None:
            lane = E.ravel()
            check(sorted(idx.tolist()) == list(range(len(lane))), "{}: not a permutation", what)
            seq = [lane[i] for i in idx]
            for x, y in zip(seq, seq[1:]):
                check(y - x >= 0, "{}: order {} before {}", what, _fmt(x), _fmt(y))
        else:
            check(idx.shape == shape, "{}: shape {}", what, idx.shape)
            taken = np.take_along_axis(E, idx, axis=axis)
            for (ix, lg), (_, li) in zip(lanes(taken), lanes(idx.astype(object))):
                check(sorted(int(v) for v in li) == list(range(len(li))), "{}: lane {} not a permutation", what, ix)
                for x, y in zip(lg, lg[1:]):
                    check(y - x >= 0, "{}: lane {} order {} before {}", what, ix, _fmt(x), _fmt(y))
        s = sorted(E.ravel())
        hard += any(0 < y - x < max(abs(x), abs(y)) * F(1, 2**52) for x, y in zip(s, s[1:]))
    stt.nt(hard > 0)
    stt.label("fn_" + fn)
    stt.label("axis_none" if axis is None else "axis_given")
    stt.label("ndim_%d" % len(shape))
    stt.label("mode_" + a["mode"])
    stt.label("layout_" + lay)


@st.composite
def red_long_case(draw):
    return {"n": draw(st.sampled_from([65535, 65536, 65537, 70001])), "seed": draw(st.integers(0, 10**6)), "big": draw(st.sampled_from([0, 10**6, 2**45, 10**15])),
            "fn": draw(st.sampled_from(["min", "max", "argmin", "argmax", "sort", "argsort", "ptp"])), "shape2d": draw(st.booleans())}


def run_red_long(case, stt):
    import pulsarbat as pb

    n = case["n"]
    rng = np.random.default_rng(case["seed"])
    cnt = np.full(n, float(case["big"]))
    fr = 0.1 + rng.integers(-8, 9, n) * 2.0**-50 + rng.integers(0, 3, n) * 2.0**-30
    # the extremes sit at block edges now and then
    for pos, delta in ((n - 1, -(2.0**-40)), (65535 if n > 65535 else 0, 2.0**-39)):
        if rng.integers(0, 2):
            fr[pos] += delta
    with lib("long Phase array reduction"):
        p = pb.Phase(cnt, fr)
        if case["shape2d"] and n % 1 == 0:
            pass
        fn = case["fn"]
        r = getattr(p, fn)() if fn not in ("sort", "argsort") else getattr(p, fn)()
    ex = O.phase_fractions(p)
    lo, hi = min(ex), max(ex)
    if fn in ("min", "max", "ptp"):
        g = O.phase_fraction(r)
        want = {"min": lo, "max": hi, "ptp": hi - lo}[fn]
        check(abs(g - want) <= (3 * TWO52 if fn == "ptp" else 0), "{} of {} phases gives {} but exactly {}", fn, n, _fmt(g), _fmt(want))
    elif fn in ("argmin", "argmax"):
        i = int(r)
        check(ex[i] == (lo if fn == "argmin" else hi), "{} of {} phases -> index {} holding {}, exact extreme {}", fn, n, i, _fmt(ex[i]),
              _fmt(lo if fn == "argmin" else hi))
    elif fn == "sort":
        g = O.phase_fractions(r)
        check(len(g) == n and all(b - a >= 0 for a, b in zip(g, g[1:])), "sort of {} phases is not non-decreasing", n)
        check(sorted(g) == sorted(ex), "sort of {} phases is not a permutation of the input", n)
    else:
        idx = np.asarray(r)
        check(sorted(idx.tolist()) == list(range(n)), "argsort of {} phases is not a permutation", n)
        seq = [ex[i] for i in idx]
        check(all(b - a >= 0 for a, b in zip(seq, seq[1:])), "argsort of {} phases does not order them", n)
    stt.nt()
    stt.label("fn_" + fn)


# ---------------------------------------------------------------------------------------------
# 3. rendering
# ---------------------------------------------------------------------------------------------


@st.composite
def render_case(draw):
    cnt = draw(st.sampled_from([0, 1, 2, 3, -1, -3, 9, 10, 99, 999999, 10**6, 2**40, 10**15, 2**52, -(2**52), 4503599627370495, -(10**15)]))
    if draw(st.booleans()):
        cnt = draw(st.integers(-(2**52), 2**52))
    fr = draw(st.one_of(st.sampled_from(SPECIAL_FRAC + [0.05, 0.95 - 1, 0.9999999999999999 - 1, -1e-17, 1e-17, 2.0**-54, -(2.0**-54), 0.15, 0.25, 0.35,
                                                        0.00049999999, 0.0005, 1e-5, 0.045]),
                        st.floats(-0.5, 0.5), st.floats(-1e-12, 1e-12), st.integers(-500, 500).map(lambda k: k / 1000)))
    p = draw(st.integers(0, 25))
    if draw(st.integers(0, 3)) == 0 and p <= 15:
        # the double next to a decimal rounding tie at p decimals: k*10^-p + 5*10^-(p+1)  (and its neighbours)
        k = draw(st.integers(0, min(10**p, 40) - 1)) if p else 0
        tie = (F(k) + F(1, 2)) / 10**p
        if tie > F(1, 2):
            tie -= 1
        fr = float(tie)
        fr = float(np.nextafter(fr, draw(st.sampled_from([-1.0, 1.0])))) if draw(st.booleans()) else fr
        fr = min(0.5, max(-0.5, fr))
    return {"count": cnt, "frac": fr, "how": draw(st.sampled_from(["default", "precision", "precision", "format", "str", "array", "alwayssign", "imag", "unit_str", "unit_obj",
                                                                    "unit_built", "alwayssign_default"])),
            "p": p, "w": draw(st.sampled_from(["", "12", "+", "+20", "025", "<14", "^15", "*>16", " ", "*^+21"])), "p0": draw(st.integers(0, 5)) == 0,
            "fk": draw(st.sampled_from(["f", "f", "f", "F", "bare", "bareF"]))}


def parse_decimal(s):
    s = s.strip()
    return F(Decimal(s))


def run_render(case, stt):
    import pulsarbat as pb

    with lib("Phase(count, frac)"):
        p = pb.Phase(float(case["count"]), float(case["frac"]))
    e = O.phase_fraction(p)
    how, prec = case["how"], case["p"]
    with lib("render " + how):
        if how == "default":
            s, digits = p.to_string(), None
        elif how == "precision":
            s, digits = p.to_string(precision=prec), prec
        elif how in ("unit_str", "unit_obj", "unit_built"):
            # the unit the phase is already in, spelled as a string / the unit object / an equal unit object built afresh
            un = {"unit_str": "cycle", "unit_obj": u.cycle, "unit_built": u.Unit("cycle") * 1}[how]
            un = un.unit if hasattr(un, "unit") else un
            s, digits = p.to_string(unit=un, precision=prec), prec
        elif how == "alwayssign":
            s, digits = p.to_string(precision=prec, alwayssign=True), prec
        elif how == "alwayssign_default":
            s, digits = p.to_string(alwayssign=True), None
        elif how == "format":
            if prec == 0 and not case.get("p0"):
                prec = 1
            if case.get("p0"):
                prec = 0  # '.0f': no decimals at all is a fixed-point format too
            fk = case.get("fk", "f")
            if fk.startswith("bare"):
                prec = 6  # no '.N' part at all: six decimals, as for a float
                s, digits = format(p, case["w"] + ("F" if fk == "bareF" else "f")), prec
            else:
                s, digits = format(p, "%s.%d%s" % (case["w"], prec, fk)), prec
            check(len(s) >= int("".join(ch for ch in case["w"].lstrip("*<>^+ ") if ch.isdigit()) or 0), "format width: {!r} for spec {!r}", s,
                  case["w"])
            s = s.strip("*")
        elif how == "str":
            s, digits = str(p), None
            s = s.replace("cycle", "").strip()
        elif how == "imag":
            s, digits = (p * 1j).to_string(precision=prec), prec
            check(s.endswith("j"), "imaginary phase renders as {!r}", s)
            s = s[:-1]
        else:
            pa = pb.Phase(np.array([float(case["count"]), 1.0]), np.array([float(case["frac"]), 0.25]))
            arr = pa.to_string(precision=prec)
            check(arr.shape == (2,), "array rendering shape {}", arr.shape)
            s, digits = str(arr[0]), prec
    s = str(s)
    body = s.strip()
    check(body and all(ch in "+-0123456789." for ch in body) and body.count(".") <= 1, "rendered {!r} is not a plain decimal number", s)
    v = parse_decimal(body)
    if digits is None:
        bound = F(1, 10**16)
        cnt, fr = float(p.view(np.ndarray)["int"]), float(p.view(np.ndarray)["frac"])
        if cnt != 0 and fr != 0 and (fr < 0) != (e < 0):
            # known finding K1 (known_findings.json): the default path forms frac+1 in floating point for these phases; the wider
            # bound 2^-53 + 2^-54 (+2 %) applies to this class only, so that anything worse is still reported
            bound = F(17, 10**17)
            stt.label("K1_class")
            if abs(v - e) > F(1, 10**16):
                stt.label("K1_exceeds_1e-16")
        check(abs(v - e) <= bound, "default rendering {!r} differs from the exact value {} by {:.3g} (> {:.3g})", s, _fmt(e), float(abs(v - e)), float(bound))
    else:
        nd = len(body.split(".")[1]) if "." in body else 0
        check(nd == digits, "{!r} shows {} decimals, {} requested", s, nd, digits)
        check(abs(v - e) <= F(1, 2) / 10**digits, "{!r} is not the exact value {} rounded to {} decimals (off by {:.3g})", s, _fmt(e), digits, float(abs(v - e)))
    if how in ("alwayssign", "alwayssign_default"):
        check(body[0] in "+-" and (body[0] == "-") == (e < 0 or (e == 0 and body[0] == "-")), "alwayssign: {!r} for the value {}", s, _fmt(e))
    if how == "format" and case["w"].lstrip("+0").isdigit():
        check(len(s) >= int(case["w"].lstrip("+0")), "format width: {!r}", s)
    fr_abs = abs(e - math.floor(e + F(1, 2)))
    stt.nt((digits is not None and (digits >= 16 or digits <= 1)) or fr_abs < F(1, 10**15) and e != math.floor(e + F(1, 2)) or abs(e) >= 2**40)
    stt.label("how_" + how)
    if digits is not None:
        stt.label("p_%s" % ("0-1" if digits <= 1 else "2-15" if digits < 16 else "16-25"))


# ---------------------------------------------------------------------------------------------
# 4. parsing
# ---------------------------------------------------------------------------------------------


@st.composite
def dec_string(draw):
    ni = draw(st.integers(0, 15))
    nf = draw(st.integers(0, 30 - ni))
    if ni == 0 and nf == 0:
        ni = 1
    ip = "".join(str(draw(st.integers(0, 9))) for _ in range(ni))
    fp = "".join(str(draw(st.integers(0, 9))) for _ in range(nf))
    if draw(st.integers(0, 3)) == 0:
        ip = "0" * draw(st.integers(0, 3)) + ip
    if draw(st.integers(0, 4)) == 0 and ni:
        ip = "0" if draw(st.booleans()) else ip
    if draw(st.integers(0, 4)) == 0 and nf:
        fp = "0" * len(fp) if draw(st.booleans()) else fp
    dot = draw(st.booleans()) or nf > 0 or ni == 0
    body = ip + ("." + fp if dot else "")
    if body in (".", ""):
        body = "0."
    ex = None
    if draw(st.integers(0, 2)) == 0:
        # keep |value| < 4e15 after the exponent moves the point
        lead = len(ip.lstrip("0"))
        emax = max(0, 15 - lead)
        e = draw(st.integers(-25, emax))
        ex = draw(st.sampled_from("eEdD")) + draw(st.sampled_from(["", "+", "-"] if e == 0 else (["", "+"] if e > 0 else ["-"]))) + ("%d" % abs(e) if draw(
            st.booleans()) else "%02d" % abs(e))
        body += ex
    sign = draw(st.sampled_from(["", "", "+", "-"]))
    j = draw(st.integers(0, 5)) == 0
    pad_l, pad_r = draw(st.sampled_from(["", "", " ", "  "])), draw(st.sampled_from(["", "", " "]))
    return {"s": pad_l + sign + body + ("j" if j else "") + pad_r, "imag": j}


@st.composite
def parse_case(draw):
    form = draw(st.sampled_from(["scalar", "scalar", "array", "bytes"]))
    n = 1 if form != "array" else draw(st.integers(1, 4))
    items = [draw(dec_string()) for _ in range(n)]
    if n > 1:
        for it in items:
            if it["imag"] != items[0]["imag"]:
                it["s"] = it["s"].replace("j", "") if not items[0]["imag"] else it["s"].rstrip() .rstrip("j") + "j"
                it["imag"] = items[0]["imag"]
    return {"form": form, "items": items}


def exact_of_string(s):
    t = s.strip().lower().replace("d", "e")
    if t.endswith("j"):
        t = t[:-1]
    return F(Decimal(t))


def run_parse(case, stt):
    import pulsarbat as pb

    strs = [it["s"] for it in case["items"]]
    ex = [exact_of_string(s) for s in strs]
    if any(abs(e) >= 4 * 10**15 for e in ex):
        stt.label("skip_too_large")
        return
    imag = case["items"][0]["imag"]
    with lib("Phase.from_string(%r)" % (strs if len(strs) > 1 else strs[0])):
        if case["form"] == "array":
            p = pb.Phase.from_string(np.array(strs))
        elif case["form"] == "bytes":
            p = pb.Phase.from_string(np.array(strs[0].encode()))
        else:
            p = pb.Phase.from_string(strs[0])
    is_phase(p, "from_string")
    got = O.phase_fractions(p)
    check(len(got) == len(ex), "from_string shape {}", p.shape)
    for s, g, e in zip(strs, got, ex):
        check(abs(g - e) <= TWO52, "from_string({!r}) = {} but the decimal value is {} (off by {:.3g} cycles)", s, _fmt(g), _fmt(e), float(abs(g - e)))
    if all(e != 0 for e in ex):
        check(bool(p.imaginary) == imag, "from_string({!r}): imaginary = {}", strs, p.imaginary)
    elif not imag:
        check(not p.imaginary, "a real string {!r} yields an imaginary phase", strs)
    # round trip through the default rendering
    with lib("to_string / from_string round trip"):
        back = pb.Phase.from_string(p.to_string())
    for g, b in zip(got, O.phase_fractions(back)):
        check(abs(g - b) <= TWO52, "from_string(to_string(p)) differs from p by {:.3g} cycles (p = {})", float(abs(g - b)), _fmt(g))
    t = strs[0].strip().lower()
    stt.nt("." not in t or any(c in t for c in "ed") or t.lstrip("+-").startswith((".", "0.")) or t.rstrip("j").endswith("."))
    stt.label("form_" + case["form"])
    stt.label("has_exponent" if any(c in t for c in "ed") else "no_exponent")
    stt.label("no_dot" if "." not in t else "dot")
    stt.label("imag" if imag else "real")


def run_badparse(s, stt):
    import pulsarbat as pb

    must_raise("from_string(%r)" % s, lambda: pb.Phase.from_string(s), (ValueError, AssertionError, IndexError))
    stt.nt()


SUBS = [
    Sub("comparisons", cmp_case(), run_cmp,
        "1-d/2-d phase arrays (ties, near-ties differing by 2^-52..2^-30 at counts to 2^52, lanes of different magnitude, mixed signs) compared "
        "with a Phase array (same/shuffled/shifted by a tiny delta), a Phase scalar, a number or a cycle Quantity, both operand orders, all six "
        "operators; non-trivial = a pair closer than one ulp of its cycle count", quick=2500, thorough=60000, pieces_quick=3),
    Sub("reductions", red_case(), run_red,
        "min/max/argmin/argmax/sort/argsort/ptp as methods and np.min/np.max/np.argmin/np.argmax, axis None or any axis, keepdims: the result is a "
        "correct answer under the exact order (any order among ties), a permutation where applicable, and a normalised Phase; in 2/3 of the cases an "
        "ordering call and a sanctioned in-place update (negate / *= -3 / += q) of the same object come first; non-trivial = two "
        "elements of a lane closer than one ulp of their cycle count", quick=3000, thorough=60000, pieces_quick=4),
    Sub("long_reductions", red_long_case(), run_red_long,
        "min/max/argmin/argmax/sort/argsort/ptp of 65535..70001 phases whose fractions differ by multiples of 2^-50 at counts to 1e15, extremes "
        "sometimes at the last element or at index 65535; all non-trivial", quick=24, thorough=300, pieces_quick=4),
    Sub("rendering", render_case(), run_render,
        "to_string(), to_string(precision=0..25), alwayssign, unit= given as 'cycle' / u.cycle / an equal unit built afresh, format(x, '[+][w].pf'), "
        "str(), arrays, imaginary phases, for counts to +-2^52 and "
        "fractions incl. values within 1e-17 of an integer and decimal rounding ties; non-trivial = precision <= 1 or >= 16, or a fraction below "
        "1e-15, or |count| >= 2^40", quick=4000, thorough=80000, pieces_quick=4),
    Sub("parsing", parse_case(), run_parse,
        "decimal strings from the grammar (scalar str, NumPy str array, bytes) parsed to within 2^-52 cycles, real stays real, j gives imaginary, "
        "from_string(to_string(p)) == p; non-trivial = no decimal point, or an exponent, or an empty/zero integer part, or an empty fraction",
        quick=3000, thorough=80000, pieces_quick=4),
    Sub("bad_strings", st.sampled_from(["", " ", "abc", "1.2.3", "--1", "1e", "e5", "1e1.5", "j", "+", "1 2", "0x10", "1,5"]), run_badparse,
        "strings that are not plain decimal numbers are refused", quick=30, thorough=100, pieces_quick=1),
]

"""C01 -- retained samples keep their absolute timestamps under every crop or slice."""

import math
from fractions import Fraction as F

import numpy as np
import astropy.units as u
from hypothesis import strategies as st
from hypothesis.stateful import rule, initialize, precondition

from ..core import Sub, MachineSub, HistoryMachine, Violation, check, lib, must_raise
from .. import oracle as O, gen as G
from ..contract import contract, assert_start, assert_rate, same_meta, bits_equal, rate_hz

ASSUMPTIONS = [
    "absolute times are compared in TAI as exact rationals of astropy's two doubles; tolerance 12 ps per library "
    "operation + 4 eps of the accumulated offset (Time is two doubles in days: ulp(0.5 d) = 9.6 ps)",
    "time_shift treats |shift| <= 1e-8 samples as zero (documented allclose fast path); generated non-zero shifts are >= 2^-20",
    "dedispersion crops are predicted from exact-rational band-edge delays; cases with a delay within 1e-6 sample of an "
    "integer are skipped in the pipeline machine (either neighbour is acceptable there)",
]
EPS = 2.220446049250313e-16


# ---------------------------------------------------------------------------------------------
# shared: everything that must hold for a signal given what the ledger predicts
# ---------------------------------------------------------------------------------------------


def check_clock(y, T_exp, rate_exp, L_exp, k_ops, offset_s, n_steps, what):
    """y: library output; T_exp exact start (or None); rate_exp exact Hz; L_exp expected length."""
    contract(y, what)
    check(len(y) == L_exp, "{}: length {} != expected {}", what, len(y), L_exp)
    assert_rate(y, rate_exp, k=n_steps, what=what + ": ")
    r = rate_hz(y)
    dt = F(float(y.dt.to_value(u.s)))
    check(abs(dt * r - 1) <= 8 * F(EPS), "{}: dt*sample_rate = {} != 1", what, float(dt * r))
    tl = F(float(y.time_length.to_value(u.s)))
    check(abs(tl - L_exp / r) <= 8 * F(EPS) * abs(L_exp / r), "{}: time_length {} != len/sample_rate {}", what, float(tl), float(L_exp / r))
    if T_exp is None:
        assert_start(y, None, what=what + ": ")
        probe = G.mk_time({"mjd": 55000, "frac": 0.25})
        with lib("contains"):
            c1 = y.contains(probe)
            c2 = y.contains(probe + np.arange(3) * u.s)
            c3 = probe in y
        check(c1 is False or (np.ndim(c1) == 0 and not bool(c1)), "{}: contains() true for a signal without start time", what)
        check(np.shape(c2) == (3,) and not np.any(c2), "{}: contains(array) not all-False without start time", what)
        check(not c3, "{}: `t in signal` true without start time", what)
        return
    if L_exp == 0:
        check(y.start_time is not None, "{}: start_time lost", what)
        d = O.T(y.stop_time) - O.T(y.start_time)
        check(abs(d) <= O.time_tol(1), "{}: empty signal but stop_time - start_time = {} s", what, float(d))
        # the half-open interval [start, stop) of an empty signal is empty: nothing is contained, not even its own start time
        with lib("contains (empty signal)"):
            c1, c3 = y.contains(y.start_time), (y.start_time in y)
            c2 = y.contains(y.start_time + np.array([0.0, 1e-12, -1e-12]) * u.s)
        check(not bool(c1) and not c3 and not np.any(c2), "{}: an empty signal reports its own start time as contained", what)
        return
    assert_start(y, T_exp, k=k_ops, offset_s=offset_s, what=what + ": ")
    span = L_exp / r
    d = O.T(y.stop_time) - O.T(y.start_time)
    check(abs(d - span) <= O.time_tol(1, span), "{}: stop_time - start_time = {!r} s, expected len/sample_rate = {!r} s", what, float(d), float(span))
    # membership: half-open [start, stop)
    with lib("contains"):
        check(bool(y.contains(y.start_time)), "{}: start_time not contained in a non-empty signal", what)
        check(not bool(y.contains(y.stop_time)), "{}: stop_time is reported as contained (interval must be half-open)", what)
        check(y.start_time in y, "{}: `start_time in signal` is False", what)
    pos = []
    for j in (-2, -1, 0, 1, L_exp // 2, L_exp - 1, L_exp, L_exp + 1):
        for ph in (F(0), F(1, 2)):
            x = j + ph
            off = x / r
            edge = min(abs(off), abs(off - span))
            if edge <= F(100, 10**12) + 8 * F(EPS) * abs(off):
                continue
            pos.append((x, off))
    if pos:
        offs = np.array([float(o) for _, o in pos]) * u.s
        with lib("contains"):
            got = y.contains(y.start_time + offs)
            one = y.contains(y.start_time + offs[0])
        check(np.shape(got) == (len(pos),), "{}: contains(array) has shape {}", what, np.shape(got))
        for (x, _), g in zip(pos, got):
            check(bool(g) == (0 <= x < L_exp), "{}: contains(start + {} samples) = {} for length {}", what, float(x), bool(g), L_exp)
        check(bool(one) == bool(got[0]), "{}: scalar and array membership disagree", what)


# ---------------------------------------------------------------------------------------------
# 1. single slice (time, and time+frequency for radio classes)
# ---------------------------------------------------------------------------------------------


@st.composite
def slice_case(draw):
    spec = draw(G.signal_spec(nmax=300))
    if draw(st.integers(0, 19)) == 0:
        # long signals now and then (a few 10^4..10^5 samples, one channel)
        spec["n"] = draw(st.sampled_from([4096, 65536, 65537, 100003, 200000]))
        fixed = {"FullStokesSignal": [4], "DualPolarizationSignal": [2]}.get(spec["cls"], [])
        spec["sshape"] = ([] if spec["cls"] == "Signal" else [min(spec["sshape"][0], 2)]) + fixed
        if spec["dtype"] in ("f4", "c8"):
            spec["dtype"] = "f8" if spec["dtype"] == "f4" else "c16"
    n = spec["n"]
    sl = draw(G.slices(n))
    case = {"sig": spec, "t": sl}
    if spec["cls"] != "Signal" and draw(st.booleans()):
        nchan = spec["sshape"][0]
        a = draw(st.integers(0, nchan - 1))
        b = draw(st.integers(a + 1, nchan))
        form = draw(st.integers(0, 2))
        fs = [a, b]
        if form == 1:
            fs = [a - nchan if a else None, b - nchan if b < nchan else None]
        elif form == 2:
            fs = [a if a else None, b if b < nchan else nchan + 2]
        case["f"] = fs
    return case


def _sl(t):
    return slice(*t)


def run_slice(case, stt):
    spec = case["sig"]
    z = G.build(spec)
    n = spec["n"]
    s = _sl(case["t"])
    idx = (s,) if "f" not in case else (s, slice(*case["f"]))
    with lib("slice"):
        y = z[idx if len(idx) > 1 else idx[0]]
    start, stop, step = s.indices(n)
    L = len(range(start, stop, step))
    r0 = O.fq(spec["sr"])
    T0 = None if z.start_time is None else O.T(z.start_time)
    T1 = None if T0 is None else T0 + start / r0
    check_clock(y, T1, r0 / step, L, 1, start / r0, 1 if step > 1 else 0, "slice")
    check(bits_equal(y.data, z.data[idx]), "slice: output samples are not input samples {}", str(idx))
    check(type(y) is type(z), "slice: type changed")
    check(y.meta == z.meta, "slice: meta changed")
    nt = start > 0 and L > 0 and (step > 1 or any(v is not None and (v < 0 or v > n) for v in case["t"][:2])
                                   or float(r0) >= 1e6)
    stt.nt(nt)
    stt.label(spec["cls"])
    stt.label("step>1" if step > 1 else "step1")
    stt.label("empty" if L == 0 else "nonempty")
    stt.label("start" if spec["t0"] else "nostart")
    stt.label("rate>=1MHz" if float(r0) >= 1e6 else "rate<1MHz")
    # negative steps are documented as unsupported: must not return a signal
    if case["t"][2] is None and n > 2:
        must_raise("slice with negative step", lambda: z[::-1], (AssertionError, ValueError, IndexError))


# -- 1b. a user subclass whose constructor fixes the rate -------------------------------------------------------------


def run_fixed_rate(case, stt):
    """A user-defined subclass with a NARROWER constructor (the rate is a class constant, there is no sample_rate parameter): an operation that
    has to change the rate either produces a result with the right clock or refuses -- it never returns samples stamped with the wrong times."""
    import pulsarbat as pb

    class FixedRate(pb.Signal):
        def __init__(self, z, /, *, start_time=None, meta=None):
            super().__init__(z, sample_rate=2 * u.kHz, start_time=start_time, meta=meta)

    n = case["n"]
    t0 = G.mk_time(case["t0"])
    z = FixedRate(np.arange(n, dtype=np.float64), start_time=t0)
    s = _sl(case["t"])
    start, stop, step = s.indices(n)
    L = len(range(start, stop, step))
    try:
        y = z[s]
    except (TypeError, ValueError):
        stt.label("refused")
        stt.nt(step > 1)
        return
    r0 = F(2000)
    T1 = None if t0 is None else O.T(z.start_time) + start / r0
    check_clock(y, T1, r0 / step, L, 1, start / r0, 1 if step > 1 else 0, "slice of a fixed-rate user subclass")
    check(bits_equal(np.asarray(y.data), np.arange(n, dtype=np.float64)[s]), "slice of a fixed-rate user subclass: wrong samples")
    stt.nt(step > 1)
    stt.label("returned_step%s" % ("1" if step == 1 else ">1"))


# ---------------------------------------------------------------------------------------------
# 2. pipelines of cropping operations (state machine)
# ---------------------------------------------------------------------------------------------


class Pipe:
    """Plain model + executor.  Steps: ["init", spec], ["slice", a, b, c], ["fast_len"],
    ["tshift", shiftspec], ["snip", form, t, n], ["cdd", dm, refsel], ["idd", dm, refsel], ["roundtrip", how]"""

    def __init__(self, stt):
        self.st = stt
        self.z = None
        self.nops = 0
        self.crops = 0

    def apply(self, step):
        name = step[0]
        getattr(self, "op_" + name)(*step[1:])

    # ledger state: T (exact start or None), r (exact rate), L, off (accumulated |offset| s), steps
    def op_init(self, spec):
        self.spec = spec
        self.z = G.build(spec)
        self.T = None if self.z.start_time is None else O.T(self.z.start_time)
        self.r = O.fq(spec["sr"])
        self.L = spec["n"]
        self.off = F(0)
        self.nsteps = 0
        self.exp = np.array(self.z.data.real, dtype=np.float64)  # index-coded real parts
        self.exact = True
        # the instant of the current first sample named by ANOTHER route: the original start time plus everything dropped since (only while the
        # rate and the start time have not been re-assigned and no stepped slice was taken)
        self.t_orig, self.dropped_total = self.z.start_time, F(0)
        self.st.label("cls_" + spec["cls"])

    def _after(self, y, dropped, newL, what, step=1):
        if self.L > 0 and newL > 0:
            if self.T is not None:
                self.T = self.T + dropped / self.r
            self.off += abs(F(dropped) / self.r)
        elif self.T is not None and y.start_time is not None:
            # empty result: its (empty) interval lies within the span of what it was cut from -- all L samples dropped puts it at the
            # stop time at the latest
            got = O.T(y.start_time)
            lo, hi = self.T, self.T + F(self.L) / self.r
            tol = O.time_tol(self.nops + 2, F(self.L) / self.r)
            check(lo - tol <= got <= hi + tol, "{}: the empty result starts {} s after its input's start, outside the input's span of {} s", what,
                  float(got - lo), float(hi - lo))
            self.T = got  # from here on only consistency is asserted
        if step > 1:
            self.r = self.r / step
            self.nsteps += 1
            self.t_orig = None
        if self.L > 0 and newL > 0:
            self.dropped_total += F(dropped)
        else:
            self.t_orig = None
        self.L = newL
        self.nops += 1
        if dropped > 0 and newL > 0:
            self.crops += 1
        check_clock(y, self.T, self.r, newL, self.nops, self.off, self.nsteps, f"op{self.nops}:{what}")
        check(type(y) is type(self.z), "{}: type changed to {}", what, type(y).__name__)
        if dropped == 0 and newL > 0 and self.z.start_time is not None and y.start_time is not None and what.startswith(("slice", "fast_len")):
            # nothing dropped at the front: the retained samples keep their timestamps to the last bit (no Time arithmetic to round)
            check(O.T(y.start_time) == O.T(self.z.start_time), "{}: no leading sample was dropped but the start time moved by {:.3g} s", what,
                  float(O.T(y.start_time) - O.T(self.z.start_time)))
        self.z = y
        if self.exp is not None and newL > 0:
            got = np.asarray(y.data.real, dtype=np.float64)
            check(got.shape == self.exp.shape, "{}: shape {} != expected {}", what, got.shape, self.exp.shape)
            if self.exact:
                check(np.array_equal(got, self.exp), "{}: output samples are not the expected input samples", what)
            else:
                err = np.max(np.abs(got - self.exp)) if got.size else 0.0
                check(err < 0.3, "{}: output samples differ from the moved input samples by {}", what, float(err))
        if self.crops >= 2 or (self.crops >= 1 and float(self.r) >= 1e6):
            self.st.nt()

    def op_slice(self, a, b, c):
        s = slice(a, b, c)
        start, stop, step = s.indices(self.L)
        with lib("slice"):
            y = self.z[s]
        if self.exp is not None:
            self.exp = self.exp[s]
        self._after(y, start, len(range(start, stop, step)), "slice[%s:%s:%s]" % (a, b, c), step)
        self.st.label("op_slice")

    def op_fast_len(self):
        import pulsarbat as pb

        with lib("fast_len"):
            y = pb.fast_len(self.z)
        m = O.prev_smooth(self.L)
        if self.exp is not None:
            self.exp = self.exp[:m]
        self._after(y, 0, m, "fast_len")
        self.st.label("op_fast_len")

    def op_tshift(self, sh):
        """sh = {"vals": nested list or scalar, "form": "num"|"arr"|"time"}"""
        import pulsarbat as pb

        vals = np.array(sh["vals"], dtype=np.float64)
        if sh["form"] == "time":
            arg = (vals / float(self.r)) * u.s if False else (vals * (1 / self.z.sample_rate)).to(u.s)
            # what the library will see after its own conversion back to samples:
            eff = (arg * self.z.sample_rate).to_value(u.one)
        elif sh["form"] == "num":
            arg = float(vals) if vals.ndim == 0 else vals
            eff = vals
        else:
            arg, eff = vals, vals
        eff = np.asarray(eff, dtype=np.float64)
        if sh["form"] == "time":
            # snap: a whole number of samples expressed as time comes back within float rounding
            near = np.rint(eff)
            if np.any((np.abs(eff - near) < 1e-6) & (eff != near)):
                # ambiguous ceil/floor at an integer: the property accepts either neighbour; skip
                self.st.label("skip_tshift_time_near_integer")
                return
        with lib("time_shift(crop=True)"):
            y = pb.time_shift(self.z, arg, crop=True)
        if np.allclose(eff, 0):
            start, stop = 0, self.L
        else:
            start = max(0, int(math.ceil(np.max(eff))))
            stop = self.L + min(0, int(math.floor(np.min(eff))))
        newL = max(0, stop - start)
        if self.L == 0:
            newL, start = 0, 0
        if self.exp is not None:
            if np.all(eff == np.rint(eff)) and newL > 0:
                sb = np.broadcast_to(eff.reshape(eff.shape + (1,) * (self.exp.ndim - 1 - eff.ndim)), self.exp.shape[1:])
                e2 = np.zeros_like(self.exp)
                for ix in np.ndindex(self.exp.shape[1:]):
                    s = int(sb[ix])
                    src = self.exp[(slice(None),) + ix]
                    dst = np.zeros(self.L)
                    if s >= 0:
                        dst[s:] = src[: self.L - s] if s < self.L else []
                    else:
                        dst[:s] = src[-s:] if -s < self.L else []
                    e2[(slice(None),) + ix] = dst
                self.exp = e2[start:stop]
                if not np.allclose(eff, 0):
                    self.exact = False
            else:
                self.exp = None
        self._after(y, min(start, self.L), newL, "time_shift(%s,crop)" % (sh["vals"],))
        self.st.label("op_tshift_" + sh["form"])

    def op_snip(self, form, t, n):
        import pulsarbat as pb

        whole = float(t) == int(t)
        if form == "int":
            arg = int(t)
        elif form == "float":
            arg = float(t)
        elif form == "dur":
            arg = (t / self.z.sample_rate).to(u.s)
        elif form == "dt":
            arg = t * self.z.dt
        elif form == "time_abs":
            # the same instant computed from the ORIGINAL start time: equal to the current start + t samples up to the rounding of a Time
            arg = self.t_orig + float(self.dropped_total + F(t)) / self.z.sample_rate
        else:
            arg = self.z.start_time + t / self.z.sample_rate
        with lib("snippet(%s)" % form):
            y = pb.snippet(self.z, arg, n)
        if self.exp is not None:
            self.exp = self.exp[int(t) : int(t) + n] if whole else None
        # a fractional start is an offset of t samples in time all the same
        self._after(y, F(t), n, "snippet(%s,%s,%s)" % (form, t, n))
        self.st.label("op_snip_" + form + ("_whole" if whole else "_frac"))

    def op_set_rate(self, fac):
        """assign a new sample rate to the CURRENT object through its public setter (per-object caches of dt etc. must follow)"""
        newq = self.z.sample_rate * fac
        if not (F(1, 1000) <= O.hz(newq) <= F(10) ** 10):
            # the property quantifies over rates from mHz to GHz; beyond ~10 GHz one sample is shorter than the resolution of a Time
            self.st.label("skip_set_rate_out_of_range")
            return
        with lib("sample_rate assignment"):
            self.z.sample_rate = newq
            if self.spec["cls"] in G.BASEBAND:
                self.z.chan_bw = newq  # (baseband: channel width = sample rate)
        self.r = O.hz(newq)
        self.t_orig = None
        self.nops += 1
        check_clock(self.z, self.T, self.r, self.L, self.nops, self.off, self.nsteps, f"op{self.nops}:sample_rate *= {fac}")
        self.st.label("op_set_rate")

    def op_roundtrip(self, how):
        """the pipeline continues on a pickle / copy / deepcopy of the current signal (what another process, or a caller who keeps the
        original, works with): the same clock, to the last bit"""
        import copy
        import pickle

        with lib(how + " of the current signal"):
            y = {"pickle": lambda q: pickle.loads(pickle.dumps(q)), "copy": copy.copy, "deepcopy": copy.deepcopy}[how](self.z)
        check(type(y) is type(self.z) and len(y) == len(self.z), "{}: {} of {} samples became {} of {}", how, type(self.z).__name__, len(self.z),
              type(y).__name__, len(y))
        if self.z.start_time is None:
            check(y.start_time is None, "{}: a start time appeared", how)
        else:
            check(y.start_time is not None and O.T(y.start_time) == O.T(self.z.start_time) and y.start_time.scale == self.z.start_time.scale,
                  "{}: start_time moved by {} s", how, None if y.start_time is None else float(O.T(y.start_time) - O.T(self.z.start_time)))
        check(O.hz(y.sample_rate) == O.hz(self.z.sample_rate), "{}: sample_rate {} -> {}", how, self.z.sample_rate, y.sample_rate)
        self.z = y
        check_clock(self.z, self.T, self.r, self.L, self.nops, self.off, self.nsteps, f"op{self.nops}:{how}")
        self.st.label("op_roundtrip_" + how)

    def op_refused(self, pick):
        """an invalid attribute assignment on the current object: refused, and the clock is exactly what it was"""
        with lib("refused assignment"):
            attr = G.bad_assign(self.z, pick, prefer="start_time")
        self.nops += 1
        check_clock(self.z, self.T, self.r, self.L, self.nops, self.off, self.nsteps, f"op{self.nops}:refused assignment of {attr}")
        self.st.label("op_refused_assignment")

    def op_set_start(self, t0):
        t = G.mk_time(t0)
        with lib("start_time assignment"):
            self.z.start_time = t
        self.T = None if t is None else O.T(t)
        self.t_orig = None
        self.off = F(0)
        self.nops += 1
        check_clock(self.z, self.T, self.r, self.L, self.nops, self.off, self.nsteps, f"op{self.nops}:start_time = {t0}")
        self.st.label("op_set_start")

    def _band_edges(self):
        """lowest / highest frequency present (outermost channel labels -+ half a channel; see C05 / F33), centre frequency"""
        cf, bw = O.hz(self.z.center_freq), O.hz(self.z.chan_bw)
        labels = O.hz_arr(self.z.channel_freqs)
        return min(labels) - bw / 2, max(labels) + bw / 2, cf

    def _ref(self, refsel):
        lo, hi, cf = self._band_edges()
        return {"none": None, "center": cf, "lo": lo, "hi": hi, "above": hi * F(3, 2), "below": lo * F(2, 3),
                "inside": lo + (hi - lo) * F(1, 3)}[refsel]

    def op_cdd(self, dmv, refsel):
        import pulsarbat as pb

        lo, hi, cf = self._band_edges()
        if lo <= 0:
            self.st.label("skip_cdd_nonpositive_band")
            return
        ref = self._ref(refsel)
        dm = F(dmv)
        fr = cf if ref is None else ref
        d_top = O.disp_delay_s(dm, hi, fr) * self.r
        d_bot = O.disp_delay_s(dm, lo, fr) * self.r
        # keep the chirp phase within what float64 can resolve (generator bound of C05), and avoid ties
        fz = max(O.delay_fuzz(dm, f, fr, self.r) for f in (lo, hi))
        if any(abs(d - round(d)) < fz for d in (d_top, d_bot) if dm != 0):
            self.st.label("skip_cdd_bound")
            return
        if max(abs(d_top), abs(d_bot)) > 4 * self.L + 8:
            self.st.label("skip_cdd_huge_delay")
            return
        kw = {} if ref is None else {"ref_freq": float(ref) * u.Hz}
        if ref is not None:
            # the library sees the float reference: recompute delays from it
            fr = F(float(ref))
            d_top = O.disp_delay_s(dm, hi, fr) * self.r
            d_bot = O.disp_delay_s(dm, lo, fr) * self.r
            fz = max(O.delay_fuzz(dm, f, fr, self.r) for f in (lo, hi))
            if any(abs(d - round(d)) < fz for d in (d_top, d_bot) if dm != 0):
                self.st.label("skip_cdd_bound")
                return
        with lib("coherent_dedispersion"):
            y = pb.coherent_dedispersion(self.z, pb.DM(dmv), **kw)
        start = math.ceil(-min(0, d_top, d_bot))
        stop = self.L - math.ceil(max(0, d_top, d_bot))
        newL = max(0, stop - min(start, self.L)) if start <= self.L else 0
        self.exp = None
        self._after(y, min(start, self.L), newL, "coherent_dedispersion(DM=%s,ref=%s)" % (dmv, refsel))
        self.st.label("op_cdd")

    def op_idd(self, dmv, refsel):
        import pulsarbat as pb

        lo, hi, cf = self._band_edges()
        if lo <= 0 or self.exp is None or self.L == 0:
            self.st.label("skip_idd")
            return
        ref = self._ref(refsel)
        dm = F(dmv)
        fr = cf if ref is None else F(float(ref))
        labels = O.hz_arr(self.z.channel_freqs)
        ds = [O.disp_delay_s(dm, f, fr) * self.r for f in labels]
        fz = max(O.delay_fuzz(dm, f, fr, self.r) for f in labels)
        if any(abs(abs(d - math.floor(d)) - F(1, 2)) < fz for d in ds):
            self.st.label("skip_idd_tie")
            return
        rr = [int(math.floor(d + F(1, 2))) for d in ds]
        span = max(0, max(rr)) - min(0, min(rr))
        kw = {} if ref is None else {"ref_freq": float(ref) * u.Hz}
        if self.L - span <= 0:
            self.st.label("skip_idd_no_valid_output")
            return
        with lib("incoherent_dedispersion"):
            y = pb.incoherent_dedispersion(self.z, pb.DM(dmv), **kw)
        check(len(y) > 0, "incoherent_dedispersion: empty result although {} output times have in-range sources", self.L - span)
        got = np.asarray(y.data.real, dtype=np.float64)
        # decode: which input row does output row 0 come from, per channel
        tol = 0.0 if self.exact else 0.3
        j = []
        for i in range(len(rr)):
            col = self.exp[(slice(None), i) + (0,) * (self.exp.ndim - 2)]
            v = got[(0, i) + (0,) * (got.ndim - 2)]
            hit = np.nonzero(np.abs(col - v) <= tol)[0]
            check(len(hit) >= 1, "incoherent_dedispersion: output sample 0 of channel {} is not an input sample of that channel", i)
            j.append(int(hit[0]))
        d0 = j[0] - rr[0]
        for i in range(len(rr)):
            check(j[i] - rr[i] == d0, "incoherent_dedispersion: channel {} realigned by {} samples relative to channel 0, expected {}",
                  i, j[i] - j[0], rr[i] - rr[0])
        check(d0 >= -min(0, min(rr)) and d0 >= 0, "incoherent_dedispersion: output starts {} samples in, sources out of range", d0)
        newL = len(y)
        check(all(j[i] + newL <= self.L for i in range(len(rr))),
              "incoherent_dedispersion: {} samples returned, sources run past the input", newL)
        e2 = np.stack([self.exp[(slice(j[i], j[i] + newL), i)] for i in range(len(rr))], axis=1)
        self.exp = e2
        self._after(y, d0, newL, "incoherent_dedispersion(DM=%s,ref=%s)" % (dmv, refsel))
        self.st.label("op_idd")


class PipeMachine(HistoryMachine):
    model_cls = Pipe

    @initialize(spec=G.signal_spec(nmin=0, nmax=300, positive_band=True, max_trailing=1, nchan_max=5,
                                   sr=G.freq_q(-3, 9.6)))
    def init(self, spec):
        self.do(["init", spec])

    @rule(data=st.data())
    def slice(self, data):
        a, b, c = data.draw(G.slices(self.model.L))
        self.do(["slice", a, b, c])

    @rule()
    def fast_len(self):
        self.do(["fast_len"])

    @precondition(lambda self: self.model.L >= 1)
    @rule(data=st.data())
    def tshift(self, data):
        L = self.model.L
        ss = self.model.z.sample_shape
        ints = st.integers(-L - 2, L + 2).map(float)
        smallints = st.integers(-3, 3).map(float)
        fr = st.tuples(st.integers(-min(L, 6), min(L, 6)), st.integers(1, 2**20 - 1)).map(lambda t: t[0] + t[1] / 2**20)
        val = st.one_of(smallints, smallints, ints, fr)
        form = data.draw(st.sampled_from(["num", "arr", "arr", "time"]))
        if form == "arr" and ss:
            # leading part of the sample shape, with some axes collapsed to 1
            k = data.draw(st.integers(1, len(ss)))
            shp = [d if data.draw(st.booleans()) else 1 for d in ss[:k]]
            n = int(np.prod(shp))
            flat = data.draw(st.lists(val, min_size=n, max_size=n))
            vals = np.array(flat).reshape(shp).tolist()
        else:
            vals = data.draw(val)
            if form == "arr":
                form = "num"
        self.do(["tshift", {"vals": vals, "form": form}])

    @precondition(lambda self: self.model.L >= 1)
    @rule(data=st.data())
    def snip(self, data):
        L = self.model.L
        n = data.draw(st.one_of(st.integers(0, L), st.integers(0, min(L, 3))))
        forms = ["int", "float", "dur", "dt"] + (["time"] if self.model.T is not None else []) + (
            ["time_abs", "time_abs"] if self.model.T is not None and self.model.t_orig is not None and self.model.dropped_total > 0 else [])
        form = data.draw(st.sampled_from(forms))
        t = data.draw(st.integers(0, L - n))
        if form == "float" and n < L - t and data.draw(st.booleans()):
            t = t + data.draw(st.integers(1, 2**10 - 1)) / 2**10
            if t + n > L:
                t = float(int(t))
        self.do(["snip", form, t, n])

    @rule(fac=st.sampled_from([2.0, 0.5, 4.0, 0.25, 3.0, 1.0]))
    def set_rate(self, fac):
        self.do(["set_rate", fac])

    @rule(t0=G.time0())
    def set_start(self, t0):
        self.do(["set_start", t0])

    @rule(how=st.sampled_from(["pickle", "copy", "deepcopy"]))
    def roundtrip(self, how):
        self.do(["roundtrip", how])

    @rule(pick=st.integers(0, 1000))
    def refused(self, pick):
        self.do(["refused", pick])

    @precondition(lambda self: self.model.spec["cls"] in G.BASEBAND and self.model.L >= 2)
    @rule(dm=st.tuples(st.sampled_from([-1, 1]), st.floats(-4, 3)).map(lambda t: t[0] * 10 ** t[1]),
          ref=st.sampled_from(["none", "center", "lo", "hi", "above", "below", "inside"]))
    def cdd(self, dm, ref):
        self.do(["cdd", dm, ref])

    @precondition(lambda self: self.model.spec["cls"] != "Signal" and self.model.L >= 2)
    @rule(dm=st.tuples(st.sampled_from([-1, 1]), st.floats(-4, 3)).map(lambda t: t[0] * 10 ** t[1]),
          ref=st.sampled_from(["none", "center", "lo", "hi", "above", "below", "inside"]))
    def idd(self, dm, ref):
        self.do(["idd", dm, ref])


SUBS = [
    Sub("single_slice", slice_case(), run_slice,
        "any class/length/rate/start x z[a:b:c] (+ channel range) with None/negative/out-of-range bounds; non-trivial = drops >=1 "
        "leading sample, result non-empty, and (step>1 or a negative/out-of-range bound or rate >= 1 MHz)",
        quick=2500, thorough=60000),
    Sub("fixed_rate_subclass", st.fixed_dictionaries({"n": st.integers(0, 40), "t": G.slices(40), "t0": st.one_of(st.none(), G.time0())}), run_fixed_rate,
        "a user subclass of Signal whose constructor has no sample_rate parameter (2 kHz fixed), length 0..40, every slice: either the result has the "
        "right clock and samples or the slice is refused; non-trivial = step > 1", quick=300, thorough=5000, pieces_quick=2),
    MachineSub("pipeline", PipeMachine,
               "rule-based machine: slices, fast_len, cropped time shifts (scalar/array/time, integer/fractional), snippets in all "
               "forms, coherent and incoherent dedispersion, sample_rate / start_time assignment on the current object, ledger checked after every step; non-trivial = >=2 steps that drop "
               "leading samples, or >=1 at rate >= 1 MHz",
               quick=400, thorough=8000, steps_quick=7, steps_thorough=12, pieces_quick=4),
]

"""pbv.oracle -- exact ledgers and reference models, all independent of pulsarbat's own code."""

import bisect
import math
from fractions import Fraction as F
from functools import lru_cache

import numpy as np
import astropy.units as u

# ---------------------------------------------------------------------------------------------
# units -> exact scale factors (to Hz / to seconds)
# ---------------------------------------------------------------------------------------------

FREQ_UNITS = {"mHz": F(1, 1000), "Hz": F(1), "kHz": F(1000), "MHz": F(10**6), "GHz": F(10**9), "1/s": F(1),
              "1/ms": F(1000), "1/us": F(10**6)}
TIME_UNITS = {"s": F(1), "ms": F(1, 1000), "us": F(1, 10**6), "ns": F(1, 10**9), "min": F(60)}


def unit(name):
    return u.Unit(name)


def q(spec):
    """{'v': float, 'u': 'MHz'} -> Quantity"""
    k = spec.get("k")
    if k and qkind(spec["v"], {"i8": 0, "f4": 1}[k]) != k:
        k = None  # (a history step changed the value: no longer representable in that dtype)
    if k == "i8":  # the same number held in an integer-dtype Quantity
        return u.Quantity(int(spec["v"]), unit(spec["u"]), dtype=np.int64)
    if k == "f4":
        return u.Quantity(np.float32(spec["v"]), unit(spec["u"]), dtype=np.float32)
    return spec["v"] * unit(spec["u"])


def qkind(v, pick):
    """value-preserving dtype variant of a quantity spec value: pick 0 -> int64 when integral, 1 -> float32 when exactly representable"""
    if pick == 0 and float(v).is_integer() and abs(v) < 2**53:
        return "i8"
    if pick == 1 and float(np.float32(v)) == v:
        return "f4"
    return None


def fq(spec):
    """exact value in base units (Hz or s) of a quantity spec, as a Fraction"""
    scale = FREQ_UNITS.get(spec["u"]) or TIME_UNITS[spec["u"]]
    return F(spec["v"]) * scale


def hz(quantity):
    """Exact Fraction (Hz) of a library Quantity: float value exactly, unit scale exactly."""
    qq = u.Quantity(quantity)
    name = None
    for k in FREQ_UNITS:
        if qq.unit == unit(k):
            name = k
            break
    if name is None:
        # unknown (composite) unit: take astropy's scale, which for decimal prefixes is exact enough
        return F(float(qq.value)) * F(qq.unit.to(u.Hz)).limit_denominator(10**15)
    return F(float(qq.value)) * FREQ_UNITS[name]


def hz_arr(quantity):
    qq = u.Quantity(quantity)
    return [hz(x) for x in np.atleast_1d(qq)]


# ---------------------------------------------------------------------------------------------
# absolute time ledger (TAI seconds since JD 0, exact rational of the two doubles)
# ---------------------------------------------------------------------------------------------


def T(t):
    tt = t.tai
    return (F(float(tt.jd1)) + F(float(tt.jd2))) * 86400


PS = F(1, 10**12)


def time_tol(k_ops, offset_s=0):
    """12 ps per library op (+1) plus 4 eps of the offset that was added."""
    return 12 * PS * (k_ops + 1) + F(4 * 2.220446049250313e-16) * abs(F(offset_s))


# ---------------------------------------------------------------------------------------------
# 7-smooth numbers
# ---------------------------------------------------------------------------------------------


@lru_cache(maxsize=None)
def smooth_table(limit_log2=64):
    lim = 1 << limit_log2
    out = []
    a = 1
    while a < lim:
        b = a
        while b < lim:
            c = b
            while c < lim:
                d = c
                while d < lim:
                    out.append(d)
                    d *= 7
                c *= 5
            b *= 3
        a *= 2
    out.sort()
    return out


def next_smooth(n):
    if n <= 0:
        return 0
    tab = smooth_table()
    return tab[bisect.bisect_left(tab, n)]


def prev_smooth(n):
    if n <= 0:
        return 0
    tab = smooth_table()
    return tab[bisect.bisect_right(tab, n) - 1]


def is_smooth(n):
    if n <= 0:
        return False
    for p in (2, 3, 5, 7):
        while n % p == 0:
            n //= p
    return n == 1


# ---------------------------------------------------------------------------------------------
# DFT in extended precision (explicit matrix; argument reduced in integers)
# ---------------------------------------------------------------------------------------------

LD = np.longdouble
CLD = np.clongdouble
TWO_PI_LD = 2 * np.arctan2(LD(0), LD(-1))


@lru_cache(maxsize=64)
def dft_matrix(N, sign=-1):
    k = np.arange(N)
    kn = (np.outer(k, k) % N).astype(LD)
    ang = TWO_PI_LD * kn / LD(N)
    return (np.cos(ang) + 1j * sign * np.sin(ang)).astype(CLD)


def dft(x, axis=0):
    """Forward DFT along axis (unnormalised), longdouble."""
    x = np.asarray(x)
    N = x.shape[axis]
    W = dft_matrix(N, -1)
    xm = np.moveaxis(x.astype(CLD), axis, 0)
    y = np.tensordot(W, xm, axes=(1, 0))
    return np.moveaxis(y, 0, axis)


def idft(X, axis=0):
    X = np.asarray(X)
    N = X.shape[axis]
    W = dft_matrix(N, +1)
    xm = np.moveaxis(X.astype(CLD), axis, 0)
    y = np.tensordot(W, xm, axes=(1, 0)) / LD(N)
    return np.moveaxis(y, 0, axis)


def fftfreq_int(N):
    """integer bin numbers in numpy.fft.fftfreq order: 0..ceil(N/2)-1, -floor(N/2)..-1"""
    k = np.arange(N)
    k[k >= (N + 1) // 2] -= N
    return k


def cis_cycles_ld(x):
    """exp(2 pi i x) for x given in cycles (longdouble array), reduced mod 1 first."""
    x = np.asarray(x, dtype=LD)
    x = x - np.rint(x)
    ang = TWO_PI_LD * x
    return (np.cos(ang) + 1j * np.sin(ang)).astype(CLD)


def frac_cis(fr):
    """exp(2 pi i fr) for an exact Fraction of cycles -> python complex (double)"""
    fr = fr - (fr.numerator // fr.denominator)
    if fr > F(1, 2):
        fr -= 1
    x = float(fr) * 2 * math.pi
    return complex(math.cos(x), math.sin(x))


# ---------------------------------------------------------------------------------------------
# dispersion
# ---------------------------------------------------------------------------------------------

K_DM = F(10**6, 241)  # s MHz^2 cm^3 / pc  == 1 / 2.41e-4


class _Infinity:
    """An infinite reference frequency inside the exact formulas below: 1/INF = 0, INF/x = INF**k = INF."""

    def __truediv__(self, other):
        return self

    def __pow__(self, other):
        return self

    def __rtruediv__(self, other):
        return F(0)

    def __float__(self):
        return float("inf")

    def __repr__(self):
        return "INF"


INF = _Infinity()


def disp_delay_s(dm, f_hz, fref_hz):
    """K*DM*(f^-2 - fref^-2) in seconds, exact (f in Hz as Fractions, dm a Fraction)."""
    fm, rm = f_hz / 10**6, fref_hz / 10**6
    return K_DM * dm * (1 / fm**2 - 1 / rm**2)


def delay_fuzz(dm, f_hz, fref_hz, rate_hz):
    """How far (in samples) a float64 evaluation of the delay may sit from the exact value: each term
    K*DM/f^2 carries a few eps of relative error (unit conversions, division, square).  Used to decide
    when a ceil/round of the delay is ambiguous (either neighbour acceptable)."""
    fm, rm = f_hz / 10**6, fref_hz / 10**6
    return F(1, 10**6) + 64 * F(2.220446049250313e-16) * K_DM * abs(dm) * rate_hz * (1 / fm**2 + 1 / rm**2)


def chirp_phase_cycles(dm, f_hz, fref_hz):
    """K*DM*f*(1/fref - 1/f)^2 in cycles, exact. (K in s MHz^2 -> f in MHz gives s*MHz = 1e6 cycles)"""
    fm, rm = f_hz / 10**6, fref_hz / 10**6
    return K_DM * dm * fm * (1 / rm - 1 / fm) ** 2 * 10**6


# ---------------------------------------------------------------------------------------------
# Phase <-> Fraction
# ---------------------------------------------------------------------------------------------


def phase_fraction(p):
    """Exact value (cycles) of a scalar pulsarbat Phase; for imaginary phases the imaginary part."""
    v = p.view(np.ndarray)
    return F(float(v["int"])) + F(float(v["frac"]))


def phase_fractions(p):
    v = np.asarray(p.view(np.ndarray))
    return [F(float(a)) + F(float(b)) for a, b in zip(v["int"].ravel(), v["frac"].ravel())]


TWO52 = F(1, 2**52)

"""pbv.files -- small baseband files with known content, written by the checks with the `baseband` package into the job's scratch
directory (cached per configuration within a process).  What a file "encodes" is always taken from a direct baseband read."""

import os

import numpy as np
import astropy.units as u
from astropy.time import Time

from .core import scratch_dir

DATA = "/repo/tests/data/"
_CACHE = {}


def _rng_ints(seed, shape, complex_):
    rng = np.random.default_rng(seed)
    x = rng.integers(-100, 100, size=shape).astype(np.float64)
    if complex_:
        x = x + 1j * rng.integers(-100, 100, size=shape)
    return x


def direct_read(names, **kw):
    import baseband

    with baseband.open(names, "rs", **kw) as fh:
        raw = fh.read()
        info = {"sample_rate": fh.sample_rate, "start_time": Time(fh.start_time, format="isot", precision=9), "complex": bool(fh.complex_data),
                "shape": fh.shape, "spf": fh.samples_per_frame, "header0": fh.header0}
    return raw, info


def sample(kind):
    names = {"vdif_sample": DATA + "sample.vdif", "dada_sample": DATA + "sample.dada", "stokes_sample": DATA + "stokes_ef.dada",
             "guppi_sample": [DATA + "fake.%d.raw" % i for i in range(4)]}[kind]
    return names


def make(cfg):
    """cfg: dict with 'kind' and parameters -> (names, open_kwargs).  Cached."""
    key = repr(sorted(cfg.items()))
    if key in _CACHE and all(os.path.exists(p) for p in np.atleast_1d(_CACHE[key][0])):
        return _CACHE[key]
    kind = cfg["kind"]
    d = scratch_dir()
    tag = "%s-%d" % (kind, len(_CACHE))
    if kind.endswith("_sample"):
        out = (sample(kind), {"format": "guppi"} if kind == "guppi_sample" else {})
    elif kind in ("vdif_real", "vdif_complex"):
        from baseband import vdif

        cplx = kind == "vdif_complex"
        nthread, nchan, spf, nframes = cfg.get("nthread", 1), cfg.get("nchan", 1), cfg.get("spf", 64), cfg.get("nframes", 8)
        hdr = vdif.VDIFHeader.fromvalues(edv=1, time=Time(cfg.get("t0", "2020-03-01T00:00:00"), precision=9), samples_per_frame=spf, nchan=nchan, bps=8,
                                         complex_data=cplx, thread_id=0, station=65, sample_rate=cfg.get("rate_khz", 16) * u.kHz)
        data = _rng_ints(cfg.get("seed", 0), (spf * nframes, nthread, nchan), cplx)
        path = os.path.join(d, tag + ".vdif")
        with vdif.open(path, "ws", header0=hdr, nthread=nthread, squeeze=False) as fw:
            fw.write(data)
        out = (path, {})
    elif kind == "dada_complex":
        from baseband import dada

        with dada.open(DATA + "sample.dada", "rs") as fh:
            h = fh.header0.copy()
        npol, nchan, spf, nframes = 2, cfg.get("nchan", 1), cfg.get("spf", 64), cfg.get("nframes", 4)
        h["NCHAN"], h["NPOL"] = nchan, npol
        h.payload_nbytes = spf * nchan * npol * 2
        data = _rng_ints(cfg.get("seed", 0), (spf * nframes, npol, nchan), True).astype(np.complex64)
        path = os.path.join(d, tag + ".dada")
        with dada.open(path, "ws", header0=h, squeeze=False) as fw:
            fw.write(data)
        out = (path, {})
    elif kind == "guppi":
        from baseband import guppi
        import baseband

        with baseband.open(sample("guppi_sample"), "rs", format="guppi", squeeze=False) as fh:
            h = fh.header0.copy()
        nchan, spf, nfiles, bw = cfg.get("nchan", 4), cfg.get("spf", 64), cfg.get("nfiles", 2), cfg.get("bw", 12.5)
        h["OBSBW"], h["CHAN_BW"], h["OBSNCHAN"], h["FD_POLN"], h["OVERLAP"] = bw, bw / nchan, nchan, cfg.get("pol", "LIN"), 0
        h["TBIN"] = 1 / abs(bw / nchan * 1e6)
        h["OBSFREQ"] = cfg.get("obsfreq", 344.1875)
        h.payload_nbytes = spf * nchan * 2 * 2
        h["PKTSIZE"] = spf * nchan * 2 * 2  # one packet per frame (frame indices are derived from PKTIDX / packets per frame)
        n = spf * 2 * nfiles
        data = _rng_ints(cfg.get("seed", 0), (n, 2, nchan), True).astype(np.complex64)
        tmpl = os.path.join(d, tag + ".{file_nr:02d}.raw")
        with guppi.open(tmpl, "ws", header0=h, squeeze=False, frames_per_file=2) as fw:
            fw.write(data)
        names = [tmpl.format(file_nr=i) for i in range(nfiles)]
        if cfg.get("names") == "not_lexical":
            # the recording order is the order of the list, whatever the files are called: z, y, x ...
            new = [os.path.join(d, "%s.part-%s.raw" % (tag, chr(ord("z") - i))) for i in range(nfiles)]
            for a, b in zip(names, new):
                os.replace(a, b)
            names = new
        out = (names, {"format": "guppi"})
    elif kind == "dada_stokes":
        from baseband import dada

        with dada.open(DATA + "stokes_ef.dada", "rs") as fh:
            h = fh.header0.copy()
        nchan, spf, nframes, bw = cfg.get("nchan", 4), cfg.get("spf", 16), cfg.get("nframes", 3), cfg.get("bw", 8.0)
        h["BW"], h["NCHAN"], h["FREQ"], h["TSAMP"] = bw, nchan, cfg.get("freq", 1400.0), 64.0
        h.payload_nbytes = spf * nchan * 4
        data = _rng_ints(cfg.get("seed", 0), (spf * nframes, 4, nchan), False)
        path = os.path.join(d, tag + ".dada")
        with dada.open(path, "ws", header0=h, squeeze=False) as fw:
            fw.write(data)
        out = (path, {})
    else:
        raise ValueError(kind)
    _CACHE[key] = out
    return out

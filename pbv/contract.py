"""pbv.contract -- the class-contract invariant (property C16), applied to every signal that any
check receives from the library, plus shared metadata/time assertion helpers."""

from fractions import Fraction as F

import numpy as np
import astropy.units as u
from astropy.time import Time
import dask.array as da

from .core import Violation, check
from . import oracle as O

REQ_DTYPES = {
    "Signal": None,
    "RadioSignal": None,
    "IntensitySignal": (np.float64, np.float32),
    "FullStokesSignal": (np.float64, np.float32),
    "BasebandSignal": (np.complex128, np.complex64),
    "DualPolarizationSignal": (np.complex128, np.complex64),
}
MIN_NDIM = {"Signal": 1, "RadioSignal": 2, "IntensitySignal": 2, "FullStokesSignal": 3, "BasebandSignal": 2,
            "DualPolarizationSignal": 3}
FIXED_AXIS = {"FullStokesSignal": (2, 4), "DualPolarizationSignal": (2, 2)}


def _is_freq_scalar(qv, positive):
    try:
        if not isinstance(qv, u.Quantity):
            return False
        v = qv.to(u.Hz)
        if not v.isscalar:
            return False
        if positive and not (v.value > 0):
            return False
        return True
    except Exception:
        return False


def contract(s, where=""):
    """Raise Violation unless the signal object satisfies its class contract."""
    import pulsarbat as pb

    # (a user-defined subclass is held to the contract of the library class it derives from)
    name = next((c.__name__ for c in type(s).__mro__ if c.__name__ in MIN_NDIM and c.__module__.startswith("pulsarbat")), type(s).__name__)
    w = f"contract[{where}] {type(s).__name__}: "
    check(isinstance(s, pb.Signal), w + "not a Signal")
    check(name in MIN_NDIM, w + "unknown class")
    d = s.data
    check(isinstance(d, (np.ndarray, da.Array)), w + f"data container is {type(d).__name__}")
    check(d.ndim >= MIN_NDIM[name], w + f"ndim {d.ndim} < {MIN_NDIM[name]}")
    if name in FIXED_AXIS:
        ax, ln = FIXED_AXIS[name]
        check(d.shape[ax] == ln, w + f"axis {ax} has length {d.shape[ax]} != {ln}")
    check(int(np.prod(d.shape[1:])) > 0, w + f"empty sample shape {d.shape}")
    if REQ_DTYPES[name] is not None:
        check(d.dtype in REQ_DTYPES[name], w + f"dtype {d.dtype} not in allowed set")
    check(_is_freq_scalar(s.sample_rate, True), w + f"sample_rate {s.sample_rate!r} not a positive scalar frequency")
    st = s.start_time
    check(st is None or (isinstance(st, Time) and st.isscalar), w + "start_time not a scalar Time or None")
    check(s.meta is None or isinstance(s.meta, dict), w + "meta not dict or None")
    if isinstance(s, pb.RadioSignal):
        check(_is_freq_scalar(s.chan_bw, True), w + f"chan_bw {s.chan_bw!r} invalid")
        check(_is_freq_scalar(s.center_freq, False), w + f"center_freq {s.center_freq!r} invalid")
        check(s.freq_align in ("bottom", "center", "top"), w + f"freq_align {s.freq_align!r}")
        if d.shape[1] % 2:
            check(s.freq_align == "center", w + "odd nchan but freq_align != center")
    if isinstance(s, pb.BasebandSignal):
        a, b = O.hz(s.chan_bw), O.hz(s.sample_rate)
        check(abs(a - b) <= abs(b) * F(1, 10**12), w + f"baseband chan_bw {s.chan_bw} != sample_rate {s.sample_rate}")
    if isinstance(s, pb.DualPolarizationSignal):
        check(s.pol_type in ("linear", "circular"), w + f"pol_type {s.pol_type!r}")
    return s


# ---------------------------------------------------------------------------------------------
# metadata helpers
# ---------------------------------------------------------------------------------------------


def rate_hz(s):
    return O.hz(s.sample_rate)


def assert_rate(s, expected_hz, k=0, what=""):
    got = rate_hz(s)
    tol = abs(expected_hz) * F(4 * 2.220446049250313e-16) * (k + 1)
    check(abs(got - expected_hz) <= tol, "{}sample_rate {} Hz != expected {} Hz", what, float(got), float(expected_hz))


def assert_start(s, expected_T, k=1, offset_s=0, what=""):
    """expected_T: exact TAI seconds (Fraction) or None"""
    if expected_T is None:
        check(s.start_time is None, "{}signal without start time acquired one: {}", what, s.start_time)
        check(s.stop_time is None, "{}stop_time not None for a signal without start time", what)
        return
    check(s.start_time is not None, "{}start_time lost", what)
    got = O.T(s.start_time)
    tol = O.time_tol(k, offset_s)
    check(abs(got - expected_T) <= tol, "{}start_time off by {:.6g} s (expected offset {:.9g} s from reference; tol {:.3g})",
          what, float(got - expected_T), float(offset_s), float(tol))


def labels_hz(s):
    return O.hz_arr(s.channel_freqs)


def assert_labels(s, expected, depth=0, what=""):
    got = labels_hz(s)
    check(len(got) == len(expected), "{}nchan {} != {}", what, len(got), len(expected))
    scale = max([abs(x) for x in expected] + [abs(O.hz(s.chan_bw)) * len(expected)])
    tol = scale * F(2.220446049250313e-16) * (8 + 2 * depth)
    for i, (g, e) in enumerate(zip(got, expected)):
        check(abs(g - e) <= tol, "{}channel {} labelled {!r} Hz, expected {!r} Hz (tol {:.3g})", what, i, float(g), float(e), float(tol))


def same_meta(a, b, what="", skip=()):
    """a (result) carries the same non-time metadata as b"""
    check(type(a) is type(b) or "type" in skip, "{}type {} != {}", what, type(a).__name__, type(b).__name__)
    if "meta" not in skip:
        check(a.meta == b.meta, "{}meta changed: {} vs {}", what, a.meta, b.meta)
    if "sample_rate" not in skip:
        check(O.hz(a.sample_rate) == O.hz(b.sample_rate), "{}sample_rate changed: {} vs {}", what, a.sample_rate, b.sample_rate)
    import pulsarbat as pb

    if isinstance(b, pb.RadioSignal) and isinstance(a, pb.RadioSignal):
        if "center_freq" not in skip:
            check(O.hz(a.center_freq) == O.hz(b.center_freq), "{}center_freq changed: {} vs {}", what, a.center_freq, b.center_freq)
        if "chan_bw" not in skip:
            check(O.hz(a.chan_bw) == O.hz(b.chan_bw), "{}chan_bw changed: {} vs {}", what, a.chan_bw, b.chan_bw)
        if "freq_align" not in skip:
            check(a.freq_align == b.freq_align, "{}freq_align changed: {} vs {}", what, a.freq_align, b.freq_align)
    if isinstance(b, pb.DualPolarizationSignal) and isinstance(a, pb.DualPolarizationSignal) and "pol_type" not in skip:
        check(a.pol_type == b.pol_type, "{}pol_type changed", what)


def same_start(a, b, what=""):
    if b.start_time is None:
        check(a.start_time is None, "{}start_time appeared", what)
    else:
        # "unchanged" up to the resolution of Time: adding a zero offset goes through UTC->TAI->UTC and may move the last bit
        check(a.start_time is not None and abs(O.T(a.start_time) - O.T(b.start_time)) <= O.time_tol(1), "{}start_time changed: {} vs {}",
              what, a.start_time, b.start_time)


def bits_equal(x, y):
    x, y = np.asarray(x), np.asarray(y)
    return x.shape == y.shape and x.dtype == y.dtype and x.tobytes() == y.tobytes()

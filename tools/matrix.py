#!/venv/bin/python
"""Kill matrix: run every stored change (mutants/*.diff, seeded/*/patch.diff) against the quick check of the
property it targets (and optionally other properties), several at a time.

    python tools/matrix.py [--only C03,C04] [--jobs 4] [--write]

Writes mutants/RESULTS.md and fills "detected_by" in seeded/*/meta.json with --write.
"""
import argparse
import concurrent.futures as cf
import glob
import json
import os
import re
import subprocess
import sys

ROOT = os.path.dirname(os.path.dirname(os.path.abspath(__file__)))


def targets():
    out = []
    for p in sorted(glob.glob(os.path.join(ROOT, "mutants", "*.diff"))):
        prop = None
        for line in open(p):
            if line.startswith("# property:"):
                prop = line.split(":", 1)[1].split()
                break
        out.append((os.path.basename(p)[:-5], p, prop or []))
    for d in sorted(glob.glob(os.path.join(ROOT, "seeded", "*", "patch.diff"))):
        meta = json.load(open(os.path.join(os.path.dirname(d), "meta.json")))
        if meta.get("obsolete") or meta.get("outside_properties"):
            continue  # neutralised by a later repair of /repo, or not a violation of any listed property (reason in meta.json)
        props = meta["property"] if isinstance(meta["property"], list) else [meta["property"]]
        props = props + [p for p in meta.get("also_check", []) if p not in props]
        out.append(("seeded/" + os.path.basename(os.path.dirname(d)), d, props))
    return out


def run(name, patch, prop):
    env = {**os.environ, "PBV_PROCS": "4"}
    r = subprocess.run([sys.executable, os.path.join(ROOT, "tools", "mutation_run.py"), patch, prop], capture_output=True, text=True, env=env, cwd=ROOT)
    killed = "KILLED" in r.stdout
    first = ""
    for line in r.stdout.splitlines():
        if line.strip().startswith("["):
            first = line.strip()[:220]
            break
    if not killed and "PATCH FAILED" in r.stdout:
        first = "PATCH FAILED"
    return name, prop, killed, first


def main():
    ap = argparse.ArgumentParser()
    ap.add_argument("--only")
    ap.add_argument("--jobs", type=int, default=4)
    ap.add_argument("--write", action="store_true")
    a = ap.parse_args()
    built = {os.path.basename(p)[:-3].upper() for p in glob.glob(os.path.join(ROOT, "pbv", "props", "c*.py"))}
    only = set(a.only.split(",")) if a.only else None
    jobs = []
    for name, patch, props in targets():
        for prop in props:
            if prop in built and (only is None or prop in only):
                jobs.append((name, patch, prop))
    res = []
    with cf.ThreadPoolExecutor(a.jobs) as ex:
        for r in ex.map(lambda j: run(*j), jobs):
            print("%-28s %-4s %s  %s" % (r[0], r[1], "KILLED  " if r[2] else "SURVIVED", r[3]))
            res.append(r)
    if a.write:
        prev = {}
        path = os.path.join(ROOT, "mutants", "RESULTS.json")
        if os.path.exists(path):
            prev = json.load(open(path))
        for name, prop, killed, first in res:
            prev[name + " vs " + prop] = {"killed": killed, "first_violation": first}
        json.dump(prev, open(path, "w"), indent=1, sort_keys=True)
        lines = ["# Kill matrix (quick tier, VERIF_SEED=%s)" % os.environ.get("VERIF_SEED", "1"), "",
                 "Every stored change to theXYZT/pulsarbat is applied to a scratch copy and the quick check of its property is run against it.",
                 "`revert_Fx` = the original defect Fx re-introduced; `seeded/*` = changes written by independent sub-agents; others = own mutants.", "",
                 "| change | check | result | first violation reported |", "|---|---|---|---|"]
        for key in sorted(prev):
            v = prev[key]
            n, p = key.split(" vs ")
            lines.append("| %s | %s | %s | %s |" % (n, p, "killed" if v["killed"] else "**survived**", v["first_violation"].replace("|", "\\|")))
        open(os.path.join(ROOT, "mutants", "RESULTS.md"), "w").write("\n".join(lines) + "\n")
        for name, prop, killed, first in res:
            if name.startswith("seeded/"):
                mp = os.path.join(ROOT, name, "meta.json")
                m = json.load(open(mp))
                det = m.get("detected_by") or {}
                det[prop] = {"quick_check_kills": killed, "first_violation": first}
                m["detected_by"] = det
                json.dump(m, open(mp, "w"), indent=1)
    bad = [r for r in res if not r[2]]
    print("%d/%d killed" % (len(res) - len(bad), len(res)))
    return 0


if __name__ == "__main__":
    sys.exit(main())

#!/bin/sh
# run every quick check for seeds $1..$2 (no evidence written); prints only non-zero exits.  usage: tools/all_quick.sh 11 40
cd "$(dirname "$0")/.."
[ -d .deps ] || ./setup.sh >/dev/null 2>&1
for seed in $(seq $1 $2); do
  for p in C01 C02 C03 C04 C05 C06 C07 C08 C09 C10 C11 C12 C13 C14 C15 C16 C17 C18 C19 C20; do
    out=$(VERIF_SEED=$seed /venv/bin/python -m pbv.run $p --tier ${3:-quick} --no-evidence 2>&1); rc=$?
    if [ $rc -ne 0 ]; then echo "=== seed=$seed $p exit=$rc"; echo "$out" | grep -v "^ *$" | tail -15; fi
  done
  echo "seed $seed done $(date +%H:%M:%S)"
done

#!/venv/bin/python
"""Write the prompts for a round of independently seeded changes and create one scratch worktree of /repo per property.

    python tools/make_prompts.py --round 4 [C01 C02 ...]

For each property: `git -C /repo worktree add --detach /tmp/wt/<ID> HEAD` and /tmp/wt/<ID>.prompt.txt.  The prompt contains only the
property's text (id, title, statement, quantifier, anchor files) -- nothing from /verif.  Each agent is then started with
"Read the file /tmp/wt/<ID>.prompt.txt and carry out the task it describes exactly.  Work only in /tmp/wt/<ID>."
Afterwards: tools/collect_seeded.py --round=r<N> <IDs>, then remove the worktrees.
"""
import json
import os
import subprocess
import sys

ROOT = os.path.dirname(os.path.dirname(os.path.abspath(__file__)))

COMMON = """You are helping test a verification harness by mutation ("seeded defects"). You work ONLY inside your own scratch git worktree of the Python library pulsarbat at /tmp/wt/{ID} (a checkout of the library; tests are in tests/). Do not read or touch /verif or /repo; do not look at other directories under /tmp/wt.

Use /venv/bin/python (it has numpy, scipy, astropy, dask, baseband, pytest, hypothesis). IMPORTANT: an editable install of another checkout exists, so ALWAYS run with the worktree first on the path, e.g.
    cd /tmp/wt/{ID} && PYTHONPATH=/tmp/wt/{ID} /venv/bin/python -m pytest -q -p no:cacheprovider tests
and verify once that `import pulsarbat; print(pulsarbat.__file__)` points into /tmp/wt/{ID}. On the unmodified worktree the suite gives 223 passed, 1 failed (tests/test_phase_predictor.py::TestPredictor::test_basic fails for an unrelated reason, ignore it; tests/test_core.py::test_radiosignal_slice is randomly flaky about once in 250 runs, re-run if it fails). No network is available.

This is the property (a behavioural invariant users rely on):

  ID: {ID} -- {title}
  Statement: {statement}
  Quantified over: {quant}
  Code it is anchored in: {files}

YOUR TASK: produce TWO different, independent, realistic source changes to the library (each a small patch to files under pulsarbat/, the kind of bug a developer could plausibly introduce in a refactor, optimisation or "fix"), each of which
  (a) BREAKS the property above for some inputs,
  (b) still imports fine and leaves the existing test suite result unchanged (223 passed, same single failure), and
  (c) {emphasis}

For each change i in (1, 2) create the directory /tmp/wt/{ID}/_out/i/ containing:
  - patch.diff : unified diff produced by `git diff` in the worktree (relative to the unmodified HEAD) containing ONLY that change (paths like a/pulsarbat/...).
  - demo.py : a small standalone program (plain Python, run as `PYTHONPATH=<tree> /venv/bin/python demo.py`) that checks the property on the specific triggering input against an independent expectation (not against the library's own output), exits 0 and prints PASS on the unmodified library, and exits 1 and prints FAIL with the change applied.
  - notes.md : 5-15 lines: what the change is, why it violates the property, what exactly is needed to trigger it, and the commands you ran with their results (test-suite summary line with the change applied; demo with and without the change).
Procedure for each change: edit the files, run the full test suite (must still be 223 passed / 1 failed), run demo.py (must FAIL), save `git diff > _out/i/patch.diff`, then `git checkout -- pulsarbat` to restore, run demo.py again (must PASS). Leave the worktree with NO modifications to tracked files at the end (only the untracked _out/ directory). Do not commit anything.

Reply at the end with a short summary: for each change, one paragraph (what, trigger, verification results).
"""

EMPHASIS = {
    4: """is of a kind that a randomised (property-based) harness with good generators would still be UNLIKELY to catch. Earlier rounds already used, and the harness now covers, these mechanisms -- do NOT reuse them: results memoised/cached on an object or in the module and not invalidated by attribute assignment or in-place edits; Dask task-name collisions when several results are computed in one graph; UTC leap-second days; -0.0; inputs of unusual but value-preserving kind (float32/int64 Quantities, non-interned strings, byte-swapped arrays, NumPy integer scalars, scaled dimensionless units, angles in degrees); `where=` ufunc calls; metadata dict merging; array sizes beyond an internal batch threshold; empty other axes; huge dynamic range between columns. Look instead for: accuracy that degrades gradually (an algebraically equivalent but numerically worse formula whose error exceeds the property's stated bound only in some region of the input space -- large magnitudes, long signals, extreme ratios of two parameters, sample rates or frequencies near the ends of the quantified range); an off-by-one or strict/non-strict comparison that matters only for a particular combination of two parameters; a difference between two equivalent ways of calling the same thing (method vs function, keyword vs positional, axis given by name / non-negative int / negative int, scalar vs length-1 array, Python list vs array, unit spelled differently); wrong handling of one particular signal subclass or sample-shape rank while the others stay right; an error path that leaves partial state behind or swallows an error and returns plausible data; a result that is right but no longer lazy / no longer a view / of another dtype or container only under some option; two features that each work alone and fail only together. Silently wrong results are preferred over exceptions. The two changes should have different root causes and live in different functions where possible.""",
    5: """is of a kind that a randomised (property-based) harness with good generators would still be UNLIKELY to catch. Four earlier rounds already used, and the harness now covers, these mechanisms -- do NOT reuse them: caches/memoisation not invalidated by attribute assignment or in-place edits; Dask task-name collisions; UTC leap-second days; -0.0; value-preserving unusual input kinds (float32/int Quantities, non-interned strings, byte-swapped arrays, NumPy integer scalars incl. narrow ones, scaled dimensionless units, angles in degrees, integer-valued samples); `where=`; metadata dict merging; sizes beyond internal batch thresholds (2^16, 2^22 elements, 2^20-sample segments); empty axes; huge dynamic range; formulas whose accuracy decays with magnitude/length; relative tolerances (isclose/allclose defaults) that grow with the argument; rejected setter assignments leaving partial state; positional-vs-keyword arguments; ufunc-vs-operator spelling; partially supplied `out=`; non-finite samples; unsorted file lists; mutated caller-owned kwargs dicts; infinite reference frequency; DM in other units. Look instead for: behaviour at the very ends of the quantified range (length 0/1/2, a single channel, the first or last sample/channel/bin only, the smallest/largest rates and dates); parity (odd vs even N, channel count, segment length) in one branch only; a sign/orientation/ordering convention flipped in one code path only (one class, one backend, one alignment, one axis position, negative axis numbers); outputs that alias the input's memory (or one another) so that a LATER in-place edit of one silently changes the other, or outputs that are read-only / non-contiguous where a copy is promised; astropy semantics (Time `precision`/`format`/`scale`/`location` attributes and masked or array-valued Times, Quantity equivalencies and logarithmic/structured units, `Angle` wrapping) handled in one place and not another; a result that depends on global state of the numeric stack (np.errstate, warnings turned into errors, print options, default dtype of an empty list) or on argument OBJECT identity (the same object passed twice, a subclass instance, a read-only array, a zero-dimensional array, an iterator instead of a sequence); wrong exception TYPE or a refusal that should not happen for a valid boundary input; thread-safety of a shared buffer under the threaded scheduler. Silently wrong results are preferred over exceptions. The two changes should have different root causes and live in different functions where possible.""",
    6: """is of a kind that a randomised (property-based) harness with good generators would still be UNLIKELY to catch. Five earlier rounds already used, and the harness now covers, these mechanisms -- do NOT reuse them: caches/memoisation not invalidated by attribute assignment or in-place edits; Dask task-name collisions and late-bound closures in lazy graphs; UTC leap-second days; time scales other than UTC (TAI/TT) for start times and query times, Time format/precision/location attributes; -0.0; value-preserving unusual input kinds (float32/int Quantities, non-interned strings and NumPy string arrays, byte-swapped arrays, NumPy integer scalars incl. narrow ones, scaled dimensionless units, angles in degrees, integer-valued samples, complex-typed real factors); `where=`; partially supplied `out=`; in-place and `out=` forms of Phase arithmetic incl. remainder; metadata dict merging and caller-owned kwargs dicts; sizes beyond internal thresholds (2^16, 2^22 elements, 2^20-sample segments, 10^6-sample signals); empty axes and empty signals; huge dynamic range; formulas whose accuracy decays with magnitude/length/time span; relative tolerances that grow with the argument; rejected setter assignments leaving partial state; positional-vs-keyword arguments; ufunc-vs-operator spelling; non-finite samples; unsorted file lists; infinite reference frequency; DM in other units; module-level scratch buffers and per-thread state under threads; results that alias their input's memory (NOT counted as a violation: the library itself returns views for slices and no-op calls -- do not produce aliasing-only changes); dependence on np.errstate / warnings filters / print options; read-only input buffers; call-order dependence of the fast-length functions. Look instead for: (1) interactions ACROSS modules -- a change in a helper, base class or mixin (core.py, utils.py, fft.py, readers/_base.py) that looks harmless where it is made and breaks this property only through one particular caller; (2) copying and serialisation -- copy.copy / copy.deepcopy / pickle of signals, phases, readers, predictors and dispersion measures, and using the copy afterwards; (3) Python protocols -- len(), bool(), iteration, `in`, hashing, equality, repr/str/format round trips, indexing with unusual but valid index objects (np.int64, Ellipsis, boolean masks, negative steps where allowed, tuples with None); (4) subclassing -- a user-defined subclass of a signal class or of Phase passed where the base class is expected, and the class/metadata of the result; (5) one complex width only (complex64 vs complex128), one Dask chunk layout only (a chunk of size 1, the last chunk smaller than the others, a chunked trailing axis), one alignment/parity combination only; (6) sequences in which the SAME argument object is passed twice (e.g. concatenate([z, z2]) where z2 is z, np.add(z, z), a shift array that is a view of the data). Silently wrong results are preferred over exceptions. The two changes should have different root causes and live in different functions where possible. In addition (optional, at the end of your reply and in notes.md): if, while reading or probing the UNMODIFIED library, you notice an input for which it already violates the property above, describe it in two or three lines with the exact call that shows it.""",
}


def main():
    args = sys.argv[1:]
    rnd = 4
    if args and args[0] == "--round":
        rnd = int(args[1])
        args = args[2:]
    props = {}
    for line in open(os.path.join(ROOT, "properties.jsonl")):
        d = json.loads(line)
        props[d["id"]] = d
    ids = args or sorted(props)
    os.makedirs("/tmp/wt", exist_ok=True)
    for i in ids:
        d = props[i]
        wt = "/tmp/wt/" + i
        if not os.path.exists(wt):
            subprocess.run(["git", "-C", "/repo", "worktree", "add", "-q", "--detach", wt, "HEAD"], check=True)
        text = COMMON.format(ID=i, title=d["title"], statement=d["statement"], quant=d["quantifier"]["text"], files=", ".join(d["anchors"]["files"]),
                             emphasis=EMPHASIS[rnd])
        open("/tmp/wt/%s.prompt.txt" % i, "w").write(text)
        if i == "C01":
            open(os.path.join(ROOT, "seeded", "PROMPT_round%d_example_C01.txt" % rnd), "w").write(text)
        print(i, "ready")


if __name__ == "__main__":
    main()

#!/bin/sh
# usage: rebase_patch.sh <patchfile> <outfile>   (3-way: finds the newest ancestor the patch applies to)
set -e
P=$1; OUT=$2
rm -rf /tmp/rb; mkdir -p /tmp/rb
git -C /repo worktree add -q --detach /tmp/rb/wt HEAD
cd /tmp/rb/wt
files=$(grep '^+++ b/' $P | sed 's#+++ b/##')
for k in 1 2 3 4 5 6 7 8 9 10 11 12 13 14 15 16 17 18 19 20 21 22 23 24 25 26 27 28 29 30; do
  if git -C /repo show HEAD~$k:$(echo $files | cut -d' ' -f1) > /dev/null 2>&1; then
    git checkout -q HEAD~$k -- $files
    if git apply --check $P 2>/dev/null; then BASEK=$k; break; fi
  fi
done
[ -n "$BASEK" ] || { echo "no base found"; exit 1; }
status=ok
for f in $files; do
  git show HEAD~$BASEK:$f > /tmp/rb/base.py
done
git apply $P
for f in $files; do
  cp $f /tmp/rb/theirs.py
  git show HEAD~$BASEK:$f > /tmp/rb/base.py
  git show HEAD:$f > /tmp/rb/ours.py
  if git merge-file -q /tmp/rb/ours.py /tmp/rb/base.py /tmp/rb/theirs.py; then cp /tmp/rb/ours.py $f; else cp /tmp/rb/ours.py $f; status=CONFLICT; fi
done
git reset -q
git diff > $OUT
echo "$status base=HEAD~$BASEK $(wc -l < $OUT) lines"
cd /; git -C /repo worktree remove --force /tmp/rb/wt; git -C /repo worktree prune

#!/venv/bin/python
"""Sensitivity tool: apply a patch to a scratch copy of /repo and run quick checks against it.

    python tools/mutation_run.py PATCH [PROP ...] [--tests] [--tier quick] [--keep]

PROP defaults to the property named in the patch's first line comment ``# property: Cxx`` or in a
sibling meta.json.  The scratch copy lives under /tmp and is removed afterwards.  Exit status 0 when
every listed check reports a VIOLATION (mutant killed), 1 otherwise.
"""
import argparse
import json
import os
import shutil
import subprocess
import sys
import tempfile

ROOT = os.path.dirname(os.path.dirname(os.path.abspath(__file__)))


def main():
    ap = argparse.ArgumentParser()
    ap.add_argument("patch")
    ap.add_argument("props", nargs="*")
    ap.add_argument("--tests", action="store_true", help="also run the repo test-suite on the mutant")
    ap.add_argument("--tier", default="quick")
    ap.add_argument("--keep", action="store_true")
    ap.add_argument("--seed", default=os.environ.get("VERIF_SEED", "1"))
    a = ap.parse_args()
    patch = os.path.abspath(a.patch)
    props = list(a.props)
    meta = os.path.join(os.path.dirname(patch), "meta.json")
    if not props and os.path.exists(meta):
        m = json.load(open(meta))
        props = m["property"] if isinstance(m["property"], list) else [m["property"]]
    if not props:
        for line in open(patch):
            if line.startswith("# property:"):
                props = line.split(":", 1)[1].split()
    tmp = tempfile.mkdtemp(prefix="pbvmut-")
    try:
        subprocess.run(["git", "-C", "/repo", "worktree", "list"], capture_output=True)
        for d in ("pulsarbat", "tests"):
            shutil.copytree(os.path.join("/repo", d), os.path.join(tmp, d), ignore=shutil.ignore_patterns("__pycache__"))
        for f in ("setup.cfg", "setup.py"):
            shutil.copy(os.path.join("/repo", f), tmp)
        r = subprocess.run(["patch", "-p1", "--no-backup-if-mismatch", "-i", patch], cwd=tmp, capture_output=True, text=True)
        if r.returncode != 0:
            print("PATCH FAILED:\n" + r.stdout + r.stderr)
            return 2
        ok = True
        if a.tests:
            r = subprocess.run(["/venv/bin/python", "-m", "pytest", "-q", "-p", "no:cacheprovider", "tests"],
                               cwd=tmp, capture_output=True, text=True, env={**os.environ, "PYTHONPATH": tmp})
            tail = r.stdout.strip().splitlines()[-1] if r.stdout.strip() else r.stderr[-300:]
            print(f"repo tests on mutant: {tail}")
        for p in props:
            env = {**os.environ, "PBV_REPO": tmp, "VERIF_SEED": a.seed}
            r = subprocess.run(["/venv/bin/python", "-m", "pbv.run", p, "--tier", a.tier, "--no-evidence"], cwd=ROOT,
                               capture_output=True, text=True, env=env)
            killed = r.returncode == 1 and "VIOLATION property=" in r.stdout
            lines = [l for l in r.stdout.splitlines() if l.startswith(("VIOLATION", "  [", "HARNESS"))][:4]
            print(f"{os.path.basename(os.path.dirname(patch)) or os.path.basename(patch)} vs {p}: "
                  f"{'KILLED' if killed else 'SURVIVED (exit %d)' % r.returncode}")
            for l in lines:
                print("   " + l[:300])
            if r.returncode == 2:
                print(r.stdout[-1500:])
            ok &= killed
        return 0 if ok else 1
    finally:
        if not a.keep:
            shutil.rmtree(tmp, ignore_errors=True)
        else:
            print("kept", tmp)


if __name__ == "__main__":
    sys.exit(main())

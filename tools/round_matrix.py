#!/venv/bin/python
"""Kill matrix restricted to one round of seeded changes: ROUND=-r6- [ONLY=C01,C02] python tools/round_matrix.py"""
import sys, os, glob, json
sys.path.insert(0, os.path.dirname(os.path.abspath(__file__)))
sys.argv = ['matrix.py']
import matrix, concurrent.futures as cf
jobs = []
for name, patch, props in matrix.targets():
    if os.environ.get('ROUND','-r3-') in name:
        for p in props:
            jobs.append((name, patch, p))
only = os.environ.get('ONLY')
if only:
    jobs = [j for j in jobs if any(j[0].startswith('seeded/' + o) for o in only.split(','))]
with cf.ThreadPoolExecutor(4) as ex:
    for r in ex.map(lambda j: matrix.run(*j), jobs):
        print("%-28s %-4s %s  %s" % (r[0], r[1], "KILLED  " if r[2] else "SURVIVED", r[3]), flush=True)

#!/venv/bin/python
"""After /repo history was rewritten (autosquash of a fix commit): re-derive the commit hash of every 'fixed' finding from the
subject keyword stored with it, and regenerate mutants/revert_<id>.diff (the original defect re-introduced).  Manual tool; never run by a check."""
import json, os, subprocess
ROOT = os.path.dirname(os.path.dirname(os.path.abspath(__file__)))
k = json.load(open(os.path.join(ROOT, "known_findings.json")))
log = subprocess.run(["git", "-C", "/repo", "log", "--reverse", "--format=%h\t%s", "d827ade..HEAD"], capture_output=True, text=True).stdout.strip().splitlines()
commits = [l.split("\t") for l in log]
for f in k["findings"]:
    if f["status"] != "fixed":
        continue
    m = [c for c in commits if f["subject_key"] in c[1]]
    assert len(m) == 1, (f["id"], m)
    f["commit"] = m[0][0]
    f["line"] = f"fixed: property={f['property']} {f['commit']} {f['what']}"
json.dump(k, open(os.path.join(ROOT, "known_findings.json"), "w"), indent=1)
for f in k["findings"]:
    if f["status"] != "fixed" or f.get("revert_with") or f.get("manual_revert"):
        continue
    ids = [f["commit"]] + [g["commit"] for g in k["findings"] if g.get("revert_with") == f["id"]]
    wt = "/tmp/pbv-revert-wt"
    subprocess.run(["git", "-C", "/repo", "worktree", "add", "-q", "--detach", wt, "HEAD"], check=True)
    try:
        ok = True
        for c in reversed(ids):
            d = subprocess.run(["git", "-C", wt, "show", "-R", "--format=", c, "--", "pulsarbat"], capture_output=True, text=True).stdout
            r = subprocess.run(["git", "-C", wt, "apply", "-"], input=d, capture_output=True, text=True)
            ok &= r.returncode == 0
        diff = subprocess.run(["git", "-C", wt, "diff"], capture_output=True, text=True).stdout
        open(os.path.join(ROOT, "mutants", f"revert_{f['id']}.diff"), "w").write(
            f"# property: {f['property']}\n# reverts fix {' + '.join(ids)}: {f['what']}\n" + diff)
        print(f["id"], ids, "ok" if ok and diff else "CONFLICT")
    finally:
        subprocess.run(["git", "-C", "/repo", "worktree", "remove", "--force", wt])

#!/venv/bin/python
"""Which lines of the library do the checks actually execute?  (Generator diagnostics; not a registered check.)

    python tools/coverage_report.py [--tier quick] [--seed 1] [C01 C02 ...]

Runs the checks with PBV_COVER=<scratch dir> (pbv.core then records, via sys.monitoring, every line of a *function body* in the
pulsarbat package that gets executed in any worker), merges the per-job files and prints, per source file, the executable
function-body lines that no check reached.  Module-level and class-body lines (imports, def/class statements, docstrings) run at
import time and are not counted either way.  Writes coverage/UNCOVERED.md under /verif when --write is given.
"""
import argparse
import glob
import json
import os
import shutil
import subprocess
import sys
import tempfile

ROOT = os.path.dirname(os.path.dirname(os.path.abspath(__file__)))
REPO = os.environ.get("PBV_REPO", "/repo")


def function_lines(path):
    """line numbers that belong to function bodies (code objects with CO_OPTIMIZED), excluding the def line itself"""
    src = open(path).read()
    top = compile(src, path, "exec")
    out = set()

    def walk(code):
        for c in code.co_consts:
            if hasattr(c, "co_code"):
                if c.co_flags & 0x1:  # a function (class bodies and the module are not optimised code)
                    first = c.co_firstlineno
                    for _, _, ln in c.co_lines():
                        if ln is not None and ln != first:
                            out.add(ln)
                walk(c)

    walk(top)
    # drop docstring-only lines: lines whose statement is a bare string are never reported by LINE events reliably
    import ast

    tree = ast.parse(src)
    for node in ast.walk(tree):
        if isinstance(node, (ast.FunctionDef, ast.AsyncFunctionDef)) and node.body and isinstance(node.body[0], ast.Expr) \
                and isinstance(getattr(node.body[0], "value", None), ast.Constant) and isinstance(node.body[0].value.value, str):
            for ln in range(node.body[0].lineno, node.body[0].end_lineno + 1):
                out.discard(ln)
    return out


def main():
    ap = argparse.ArgumentParser()
    ap.add_argument("props", nargs="*")
    ap.add_argument("--tier", default="quick")
    ap.add_argument("--seed", default="1")
    ap.add_argument("--write", action="store_true")
    a = ap.parse_args()
    props = a.props or ["C%02d" % i for i in range(1, 21)]
    d = tempfile.mkdtemp(prefix="pbv-cover-")
    try:
        env = {**os.environ, "PBV_COVER": d, "VERIF_SEED": a.seed}
        for p in props:
            r = subprocess.run([sys.executable, "-m", "pbv.run", p, "--tier", a.tier, "--no-evidence"], cwd=ROOT, env=env, capture_output=True, text=True)
            print(p, "exit", r.returncode, file=sys.stderr)
        hit = {}
        for f in glob.glob(os.path.join(d, "lines-*.json")):
            for path, ln in json.load(open(f)):
                hit.setdefault(os.path.realpath(path), set()).add(ln)
    finally:
        shutil.rmtree(d, ignore_errors=True)
    lines = ["# Library lines (function bodies) not executed by any %s-tier check, seed %s" % (a.tier, a.seed), "",
             "Checks run: " + " ".join(props), ""]
    tot_f = tot_h = 0
    for path in sorted(glob.glob(os.path.join(REPO, "pulsarbat", "**", "*.py"), recursive=True)):
        fl = function_lines(path)
        if not fl:
            continue
        got = hit.get(os.path.realpath(path), set()) & fl
        tot_f += len(fl)
        tot_h += len(got)
        miss = sorted(fl - got)
        rel = os.path.relpath(path, REPO)
        lines.append("## %s: %d / %d function-body lines executed" % (rel, len(got), len(fl)))
        if miss:
            src = open(path).read().splitlines()
            for ln in miss:
                lines.append("    %4d  %s" % (ln, src[ln - 1].rstrip()[:140]))
        lines.append("")
    lines.insert(2, "Total: %d / %d (%.1f %%)" % (tot_h, tot_f, 100.0 * tot_h / max(tot_f, 1)))
    text = "\n".join(lines) + "\n"
    if a.write:
        os.makedirs(os.path.join(ROOT, "coverage"), exist_ok=True)
        open(os.path.join(ROOT, "coverage", "UNCOVERED.md"), "w").write(text)
    print(text)


if __name__ == "__main__":
    sys.exit(main())

"""Regenerates MANIFEST.json 'checks' from the property modules that exist (python tools/manifest.py)."""
import json, importlib, sys, os
sys.path.insert(0, os.path.dirname(os.path.dirname(os.path.abspath(__file__))))
ROOT = os.path.dirname(os.path.dirname(os.path.abspath(__file__)))
props = [json.loads(l) for l in open(os.path.join(ROOT, "properties.jsonl"))]
man = json.load(open(os.path.join(ROOT, "MANIFEST.json")))
from pbv import manifest_text as MT
checks, na, served = [], [], []
for p in props:
    pid = p["id"]
    if os.path.exists(os.path.join(ROOT, "pbv", "props", pid.lower() + ".py")) and pid in MT.CHECKS:
        t = MT.CHECKS[pid]
        checks.append({
            "property_id": pid,
            "quick_cmd": f"/venv/bin/python -m pbv.run {pid} --tier quick",
            "thorough_cmd": f"/venv/bin/python -m pbv.run {pid} --tier thorough",
            "evidence_file": f"/verif/evidence/{pid}.json",
            "replay_cmd_template": f"/venv/bin/python -m pbv.run {pid} --replay {{path}}",
            "engine": "pbv",
            "level_claimed": {"category": "exploration", "text": t["text"], "design_ref": t["ref"]},
            "level_note": t["note"],
            "technique": t["technique"],
        })
        served.append(pid)
    else:
        na.append({"property_id": pid, "reason": MT.NA.get(pid, "check not built yet in this session (planned: see DESIGN.md section 4); not claimed until it exists and is quiet on the unchanged tree")})
man["checks"] = checks
man["not_applicable"] = na
man["engines"][0]["serves_properties"] = served
json.dump(man, open(os.path.join(ROOT, "MANIFEST.json"), "w"), indent=1)
print("checks:", served, "not claimed:", [x["property_id"] for x in na])

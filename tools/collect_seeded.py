#!/venv/bin/python
"""Verify and import seeded changes written by sub-agents.

    python tools/collect_seeded.py C01 [C02 ...]

For each /tmp/wt/<ID>/_out/<i>/ : copy /repo to a scratch dir, check the patch applies, run the repo test
suite with the patch (its pass/fail set must equal the unpatched one), run demo.py with the patch (must exit 1)
and without (must exit 0).  Only then store it as /verif/seeded/<ID>-<i>/{patch.diff,demo.py,notes.md,meta.json}.
"""
import json
import os
import re
import shutil
import subprocess
import sys
import tempfile

ROOT = os.path.dirname(os.path.dirname(os.path.abspath(__file__)))
PY = "/venv/bin/python"


def run_tests(tree):
    r = subprocess.run([PY, "-m", "pytest", "-q", "-p", "no:cacheprovider", "-rf", "tests"], cwd=tree, capture_output=True,
                       text=True, env={**os.environ, "PYTHONPATH": tree})
    out = r.stdout
    failed = sorted(set(re.findall(r"^FAILED (\S+)", out, flags=re.M)))
    tail = out.strip().splitlines()[-1] if out.strip() else r.stderr[-200:]
    m = re.search(r"(\d+) passed", tail)
    return failed, int(m.group(1)) if m else -1, tail


def mk_tree():
    tmp = tempfile.mkdtemp(prefix="pbvseed-")
    for d in ("pulsarbat", "tests"):
        shutil.copytree(os.path.join("/repo", d), os.path.join(tmp, d), ignore=shutil.ignore_patterns("__pycache__"))
    for f in ("setup.cfg", "setup.py"):
        shutil.copy(os.path.join("/repo", f), tmp)
    return tmp


def demo(tree, path):
    r = subprocess.run([PY, path], cwd=os.path.dirname(path), capture_output=True, text=True,
                       env={**os.environ, "PYTHONPATH": tree}, timeout=900)
    return r.returncode, (r.stdout + r.stderr).strip().splitlines()[-3:]


def main():
    base_tree = mk_tree()
    base_failed, base_passed, base_tail = run_tests(base_tree)
    for _ in range(3):  # one repo test is randomly flaky: take the run with the most passes as the baseline
        f2, p2, t2 = run_tests(base_tree)
        if p2 > base_passed:
            base_failed, base_passed, base_tail = f2, p2, t2
    print("baseline:", base_tail)
    tag = ""
    args = sys.argv[1:]
    if args and args[0].startswith("--round="):
        tag = args.pop(0).split("=", 1)[1] + "-"
    try:
        for pid in args:
            for i in ("1", "2", "3"):
                src = f"/tmp/wt/{pid}/_out/{i}"
                if not os.path.exists(os.path.join(src, "patch.diff")):
                    continue
                tree = mk_tree()
                try:
                    scratch = tempfile.mkdtemp(prefix="pbvdemo-")
                    shutil.copy(os.path.join(src, "demo.py"), scratch)
                    dpath = os.path.join(scratch, "demo.py")
                    rc0, out0 = demo(base_tree, dpath)
                    r = subprocess.run(["patch", "-p1", "--no-backup-if-mismatch", "-i", os.path.join(src, "patch.diff")],
                                       cwd=tree, capture_output=True, text=True)
                    if r.returncode != 0:
                        print(f"{pid}-{i}: PATCH DOES NOT APPLY\n{r.stdout[-500:]}")
                        continue
                    failed, passed, tail = run_tests(tree)
                    if failed != base_failed or passed != base_passed:  # one repo test is randomly flaky (p ~ 0.4 %): look twice
                        failed, passed, tail = run_tests(tree)
                    rc1, out1 = demo(tree, dpath)
                    ok = failed == base_failed and passed == base_passed and rc0 == 0 and rc1 != 0
                    print(f"{pid}-{i}: tests[{tail}] same_as_baseline={failed == base_failed and passed == base_passed} "
                          f"demo clean rc={rc0} mutated rc={rc1} -> {'KEEP' if ok else 'REJECT'}")
                    if not ok:
                        print("   clean:", out0, "\n   mutated:", out1)
                        continue
                    dst = os.path.join(ROOT, "seeded", f"{pid}-{tag}{i}")
                    os.makedirs(dst, exist_ok=True)
                    for f in ("patch.diff", "demo.py", "notes.md"):
                        if os.path.exists(os.path.join(src, f)):
                            shutil.copy(os.path.join(src, f), dst)
                    notes = open(os.path.join(src, "notes.md")).read() if os.path.exists(os.path.join(src, "notes.md")) else ""
                    meta = {
                        "property": pid,
                        "origin": "independent sub-agent given only the property text and a scratch worktree",
                        "needs_to_manifest": notes.strip().split("\n\n")[0][:600],
                        "verified": {
                            "repo_tests_with_patch": tail, "repo_tests_baseline": base_tail,
                            "demo_on_clean_tree_exit": rc0, "demo_with_patch_exit": rc1,
                            "how": "tools/collect_seeded.py: scratch copy of /repo, patch -p1, pytest tests, demo.py with PYTHONPATH=<tree>",
                        },
                        "detected_by": None,
                    }
                    json.dump(meta, open(os.path.join(dst, "meta.json"), "w"), indent=1)
                finally:
                    shutil.rmtree(tree, ignore_errors=True)
                    shutil.rmtree(scratch, ignore_errors=True)
    finally:
        shutil.rmtree(base_tree, ignore_errors=True)


if __name__ == "__main__":
    main()
